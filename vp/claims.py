# claim table read by vp/manifest.py
_B1 = 'CBMC code contracts (goto-instrument --dfcc, unbounded loop contracts) on C text extracted from the real headers'
CLAIMS['C16'] = dict(
    text='Complete statement proved for all totals < 2^64, world sizes 1..2^31-1 and ranks: discard_before/discard_after and the sub_calls / generator.discard call sites of mpi_plain, mpi_vegas and mpi_multi_channel tile [0,total) contiguously in rank order, shares differ by at most one and sum to the total (induction step), every rank ends at usage*total; every intermediate of the real expressions is proved free of wrap-around, so machine arithmetic equals mathematical arithmetic.',
    note='Trusted: clang AST extraction, our WP generator (vp/b2_wp.py) for loop-free C, z3 4.8/5.1 and cvc5 (two must agree). Assumed: rank/world are what MPI_Comm_rank/size return (0 <= rank < world). The iteration itself consuming usage*sub_calls numbers is C10.',
    technique='contracts on extracted code, VCs by own WP generator to SMT-LIB Int with explicit no-overflow side conditions (z3/cvc5); native replay of models on hep::discard_before/after',
    ref='DESIGN.md 5/C16')
NA['C18'] = ('not applicable to this technique: the quantifier ranges over instants between system calls issued inside libstdc++\'s ofstream and over byte prefixes of a write; '
             'no function of /repo has a contract that can mention those instants (needs syscall interposition and crash enumeration, a different family). See DESIGN.md section 6.')
