#!/usr/bin/env python3
"""Entry point:  ./check <Cxx> [--tier quick|thorough] [--replay file] | --selftest | --list

exit 0  every obligation of the property discharged (or failed and listed in known_findings.json)
exit 1  some obligation failed and is not a known finding: prints VIOLATION property=<id> replay=<path>
exit 2  extraction / compile failure, vacuity alarm, or undecided without any failure (no VIOLATION line)
"""
import os, sys, json, time, re, subprocess, concurrent.futures, hashlib, glob

HERE = os.path.dirname(os.path.abspath(__file__))
ROOT = os.path.dirname(HERE)
sys.path.insert(0, HERE)
import build as BLD          # noqa: E402
import b2_wp as B2           # noqa: E402
import native as NAT         # noqa: E402
from recipes import JOBS, B2JOBS, NATIVEJOBS, PROPS  # noqa: E402

# A property whose statement is a composition of per-function facts that carry another property's name: in the jobs
# that list the composed property, those obligations count for it as well (e.g. C03 = lossless text (C05) + the next
# state is a function of the stored data (C19) + the drivers carry the checkpoint state (C03.*)).
from recipes import COMPOSED_OF, composed  # noqa: E402

OUT = os.environ.get('VP_OUT') or os.path.join(ROOT, 'out')
EVID = os.environ.get('VP_EVID') or os.path.join(ROOT, 'evidence')


def load_known():
    p = os.path.join(ROOT, 'known_findings.json')
    if not os.path.exists(p):
        return []
    return json.load(open(p))


def trace_inputs(trace):
    """reduce a CBMC JSON trace to the last value assigned to each interesting variable"""
    vals = {}
    if not trace:
        return vals
    for st in trace:
        if st.get('stepType') != 'assignment':
            continue
        lhs = st.get('lhs', '')
        v = st.get('value', {})
        if st.get('hidden') and not lhs.startswith('vp_w_'):
            continue
        fn = st.get('sourceLocation', {}).get('function', '')
        if lhs.startswith('vp_w_') or lhs.startswith('vp_g') or fn.startswith('h_'):
            if 'binary' in v or 'data' in v:
                vals[lhs] = dict(data=v.get('data'), binary=v.get('binary'), type=v.get('type'))
    return vals


def run_replay(prop, job, ob, inputs, log):
    """native replay on the REAL templates.  Returns (path, reproduced: True/False/None)"""
    os.makedirs(os.path.join(OUT, 'replay'), exist_ok=True)
    safe = re.sub(r'[^\w.\-]', '_', '%s_%s_%s' % (prop, ob['id'] if ob.get('solver') in ('native', 'clang-ast') else job, ob.get('name') or ob['id']))
    path = os.path.join(OUT, 'replay', safe + '.json')
    rec = dict(property=prop, job=job, obligation=ob.get('name'), cbmc_property=ob['id'], kind=ob['kind'],
               description=ob['description'], location=ob['loc'], real=ob.get('real'), solver=ob.get('solver'),
               inputs=inputs, reproduced=None, native_output=None,
               solver_output=dict(status='FAILURE', trace_steps=len(ob.get('trace') or [])))
    m = re.match(r'^([\w.\-]+\.(?:spec|smt2|h)):(\d+)$', str(ob.get('loc') or ''))
    if m:
        for base in (os.path.join(ROOT, 'specs'), os.path.join(ROOT, 'vp', 'prelude')):
            pth = os.path.join(base, m.group(1))
            if os.path.exists(pth):
                try:
                    rec['obligation_text'] = open(pth).read().split('\n')[int(m.group(2)) - 1].strip()[:600]
                except Exception:
                    pass
    rep = NAT.find_replay(job)
    if ob.get('solver') == 'native':
        # a bounded native enumeration ran the REAL templates itself: its output is the demonstration
        rec['reproduced'] = True
        rec['native_output'] = ((ob.get('model') or {}).get('native_output') or {}).get('data')
    elif ob.get('solver') == 'clang-ast':
        # a static fact has no input to replay: the replay file carries the places the fact fails at
        rec['native_output'] = ((ob.get('model') or {}).get('native_output') or {}).get('data')
    elif rep and (inputs or rep.get('no_inputs_needed')):
        ok, outtxt = NAT.run_replay(rep, rec, log)
        rec['reproduced'] = ok
        rec['native_output'] = outtxt[-4000:]
    json.dump(rec, open(path, 'w'), indent=1)
    return path, rec['reproduced']


def match_known(known, prop, ob):
    for k in known:
        if k.get('status') != 'known':
            continue
        if k['property'] != prop and not composed(prop, k.get('obligation') or (k['property'] + '.')):
            continue
        if k.get('obligation') and k['obligation'] == ob.get('name') and (not k.get('job') or k['job'] == ob.get('job')):
            return k
    return None


def check_property(pid, tier, seed, log=print):
    t0 = time.time()
    os.environ['VP_PID'] = pid      # the quick tier's fail-fast stops a job only on a failure that counts for this property
    known = load_known()
    jobs = [j for j in JOBS if pid in j['props'] and (tier == 'thorough' or not j.get('thorough_only'))]
    b2 = [j for j in B2JOBS if pid in j['props']]
    nat = [j for j in NATIVEJOBS if pid in j['props']]
    skip = set(filter(None, os.environ.get('VP_SKIP_JOBS', '').split(',')))   # diagnosis only (first-pass measurements of seeded changes)
    if skip:
        jobs = [j for j in jobs if j['name'] not in skip]
        b2 = [j for j in b2 if j['name'] not in skip]
        log('DIAGNOSIS RUN: jobs skipped: %s' % sorted(skip))
    if not jobs and not b2:
        log('no machinery for %s' % pid)
        return 2
    results = []
    if tier == 'thorough':
        expanded = []
        for j in jobs:
            expanded.append(j)
            for r in j.get('thorough_reals', []):
                jj = dict(j)
                jj['real'] = r
                jj['name'] = j['name'] + '_' + r
                expanded.append(jj)
        jobs = expanded
    workers = int(os.environ.get('VP_WORKERS', '7'))
    with concurrent.futures.ThreadPoolExecutor(max_workers=workers) as ex:
        futs = {}
        if tier == 'thorough':
            # thorough = everything the quick tier proves (same solver budget, so the same verdict cache applies) PLUS the float
            # instantiation of the jobs that have one, and no fail-fast: every obligation is decided even after a failure
            os.environ['VP_NO_FAILFAST'] = '1'
        for j in jobs:
            futs[ex.submit(BLD.run_job, j, 'quick')] = ('b1', j)
        for j in b2:
            futs[ex.submit(B2.run_job, j, tier)] = ('b2', j)
        for j in nat:
            futs[ex.submit(NAT.run_job, j, tier, seed)] = ('native', j)
        for f in concurrent.futures.as_completed(futs):
            kind, j = futs[f]
            try:
                r = f.result()
            except Exception as e:  # machinery error, never a violation
                import traceback
                r = dict(job=j['name'], status='error', obligations=[], notes=[traceback.format_exc()[-2000:]], cmds=[], secs=0)
            r['backend'] = kind
            r['jobdef'] = j
            results.append(r)
            log('  [%s] %-34s %-14s %3d obligations  %.1fs %s' % (kind, r['job'], r['status'], len(r['obligations']), r.get('secs', 0),
                                                         ('; '.join(r['notes'])[:300] if r['status'] not in ('proved',) else '')))
    results.sort(key=lambda r: r['job'])
    # ---- verdict -----------------------------------------------------------------------
    all_obs = []
    bounded = []
    conformance = 0
    hard_errors = []
    failed = []
    for r in results:
        if r['backend'] == 'native':
            conformance += r.get('cases', 0)
            if r['status'] != 'ok':
                hard_errors.append('%s: %s %s' % (r['job'], r['status'], '; '.join(r['notes'])[:500]))
            continue
        for o in r['obligations']:
            o['job'] = r['job']
            o['backend'] = r['backend']
            # obligations named for another property (shared job) only count for their own property
            if o.get('name') and re.match(r'^C\d\d', o['name']) and not o['name'].startswith(pid + '.'):
                if o['name'].split('.')[0] in PROPS and not composed(pid, o['name']):
                    continue
            if r['jobdef'].get('bounded'):
                bounded.append(o)
            else:
                all_obs.append(o)
            if o['status'] == 'failed':
                failed.append((r, o))
        if r.get('truncated') and r['status'] == 'failed' and not any(rr is r for rr, _o in failed):
            # the job was cut short by a failure that belongs to another property: this property's obligations are undecided
            hard_errors.append('%s: stopped at a failing obligation of another property; obligations of %s undecided' % (r['job'], pid))
        if r['status'] in ('extract-error', 'compile-error', 'instrument-error', 'vacuity-alarm', 'error'):
            hard_errors.append('%s: %s %s' % (r['job'], r['status'], '; '.join(r['notes'])[:1500]))
    violations = []
    known_hits = []
    for r, o in failed:
        k = match_known(known, pid, o)
        if k:
            known_hits.append((k, o))
            continue
        inputs = trace_inputs(o.get('trace')) if r['backend'] == 'b1' else o.get('model', {})
        path, repro = run_replay(pid, r['job'], o, inputs, log)
        violations.append((o, path, repro))
    for k, o in known_hits:
        print('KNOWN-FINDING: property=%s %s [%s in job %s]' % (pid, k['what'], o.get('name'), o['job']))
    undecided = [o for o in all_obs if o['status'] == 'undecided']
    und_jobs = [r for r in results if r['status'] == 'undecided']
    n_ob = len(all_obs)
    n_dis = sum(1 for o in all_obs if o['status'] == 'proved')
    wall = time.time() - t0
    write_evidence(pid, tier, seed, results, all_obs, bounded, known_hits, violations, conformance, wall, hard_errors)
    for o, path, repro in violations:
        suffix = '' if repro else ' no-failing-input-found'
        print('VIOLATION property=%s replay=%s obligation=%s [%s] %s%s' % (pid, path, o.get('name') or o['id'], o['job'], o['description'][:80], suffix)
              if False else 'VIOLATION property=%s replay=%s%s' % (pid, path, suffix))
        log('  failed obligation: %s (%s, %s) in job %s at %s: %s' % (o.get('name'), o['id'], o['kind'], o['job'], o['loc'], o['description'][:120]))
    if violations:
        return 1
    if hard_errors:
        for h in hard_errors:
            log('ERROR (no verdict): ' + h)
        return 2
    if undecided or und_jobs:
        log('UNDECIDED: %d obligations, jobs %s' % (len(undecided), [r['job'] for r in und_jobs]))
        return 2
    log('%s: %d/%d obligations discharged (+%d bounded), %d known findings, %.1fs' % (pid, n_dis, n_ob, len(bounded), len(known_hits), wall))
    return 0


def write_evidence(pid, tier, seed, results, all_obs, bounded, known_hits, violations, conformance, wall, hard_errors):
    os.makedirs(EVID, exist_ok=True)
    funcs = []
    cmds = []
    trusted = set()
    for r in results:
        for f in (r.get('meta') or {}).get('functions', []):
            f = dict(f)
            f['file'] = f['file']
            if f not in funcs:
                funcs.append(f)
        cmds += r.get('cmds', [])
        for t in r['jobdef'].get('trusted', []):
            trusted.add(t)
    proved = [o for o in all_obs if o['status'] == 'proved']
    kh = [id(o) for _, o in known_hits]
    # every named (property-level) obligation and everything that is not proved is listed individually; the generated support
    # obligations (bounds, pointer, overflow, frame, loop-contract checks) are summarised per job / check class / back end
    obs_out = []
    support_summary = {}
    for o in all_obs:
        st = 'known-finding' if id(o) in kh else o['status']
        if o['kind'] == 'property' or st != 'proved' or o.get('name'):
            obs_out.append(dict(name=o.get('name'), cbmc_id=o['id'], kind=o['kind'], status=st,
                                backend=o.get('backend'), solver=o.get('solver'), solver_s=round(o.get('secs', 0), 2), real=o.get('real'),
                                job=o['job'], at=o['loc'], what=o['description'][:160]))
        else:
            cls = re.sub(r'\.\d+$', '', o['id'].split('.', 1)[1] if '.' in o['id'] else o['id'])
            k = (o['job'], cls, o.get('solver') or '', o.get('real') or '')
            e = support_summary.setdefault(k, dict(job=k[0], check_class=k[1], solver=k[2], real=k[3], status='proved', count=0, solver_s=0.0))
            e['count'] += 1
            e['solver_s'] = round(e['solver_s'] + (o.get('secs') or 0), 2)
    support_out = sorted(support_summary.values(), key=lambda e: (e['job'], e['check_class'], e['solver']))
    bounded_out = [dict(name=o.get('name'), status=o['status'], job=o['job'], what=o['description'][:160]) for o in bounded if o['kind'] == 'property' or o['status'] != 'proved' or o.get('name')]
    bsum = {}
    for o in bounded:
        if not (o['kind'] == 'property' or o['status'] != 'proved' or o.get('name')):
            bsum[o['job']] = bsum.get(o['job'], 0) + 1
    bounded_out += [dict(name=None, status='proved', job=j, what='%d generated support obligations (bounds, pointer, overflow, unwinding assertions) of this bounded job' % n) for j, n in sorted(bsum.items())]
    samples = [dict(name=o.get('name'), what=o['description'][:200], at=o['loc'], job=o['job'], status=o['status'])
               for o in all_obs if o['kind'] == 'property'][:12]
    if not samples:
        samples = [dict(name=o.get('name'), what=o['description'][:200], at=o['loc'], job=o['job'], status=o['status']) for o in all_obs[:5]]
    ev = dict(
        property_id=pid, tier=tier, seed=seed, level='proof',
        coverage=dict(
            obligations=len(all_obs) - len(known_hits),   # obligations failing exactly as recorded in known_findings.json are listed separately
            discharged=len(proved),
            checker_cmd=' && '.join(cmds[:4]) if cmds else 'none',
            trusted_base=sorted(trusted) + COMMON_TRUSTED,
            samples=samples,
            functions_under_contract=funcs,
            obligations_list=obs_out,
            support_obligations_summary=support_out,
            property_obligations=sum(1 for o in all_obs if o['kind'] == 'property'),
            support_obligations=sum(1 for o in all_obs if o['kind'] == 'support'),
            bounded=bounded_out,
            bounded_obligations=len(bounded),
            conformance_cases=conformance,
            known_findings_matched=[dict(obligation=o.get('name'), job=o['job'], what=k['what']) for k, o in known_hits],
            jobs=[dict(job=r['job'], backend=r['backend'], status=r['status'], secs=round(r.get('secs', 0), 1),
                       canary=r.get('canary'), loop_contracts=r.get('loop_contracts'), overrides_fired=(r.get('meta') or {}).get('fired'),
                       notes=r['notes'][:5]) for r in results],
            all_commands=cmds,
            solver_s_total=round(sum(o.get('secs', 0) for o in all_obs), 1),
            jobs_with_reused_verdict=sorted(r['job'] for r in results if r.get('cached')),
            jobs_solved_in_this_run=sorted(r['job'] for r in results if not r.get('cached')),
        ),
        assumptions=sorted(set(a for r in results for a in r['jobdef'].get('assumptions', []))) + COMMON_ASSUMPTIONS,
        wall_s=round(wall, 1),
        violations=len(violations),
    )
    if hard_errors:
        ev['coverage']['errors'] = hard_errors
    json.dump(ev, open(os.path.join(EVID, pid + '.json'), 'w'), indent=1)


COMMON_TRUSTED = [
    "clang 14 parse + template instantiation of /repo/include (the AST that guides extraction) and the override table in vp/extract.py",
    "CBMC 6.11 (goto-cc, goto-instrument --dfcc, cbmc), cadical, cvc5 1.0, z3 4.8.12 / 5.1",
    "g++ compiles the templates as the extracted C text reads (round-to-nearest, no -ffast-math, no FMA contraction)",
]
COMMON_ASSUMPTIONS = [
    "verified instantiation: T = double (and float where listed); long double is not verified (CBMC models it as binary128)",
    "vectors are modelled as {pointer, length}; capacity, allocation failure and destructors are not modelled",
    "jobs whose notes say 'verdict reused' were not re-solved in this run: their verdict was stored (verdicts/ or out/cache) when the byte-identical translation unit (extracted from /repo again on this run) + prelude + job definition was verified earlier with the same tools in this sandbox image; VP_NOCACHE=1 re-runs every solver",
]


def selftest():
    # tools present, extraction of one function works, one tiny obligation is provable and one is refutable
    import shutil
    for t in ('clang++', 'goto-cc', 'goto-instrument', 'cbmc', 'z3', 'cvc5', 'g++'):
        if not shutil.which(t):
            print('missing tool', t)
            return 1
    try:
        spec, names = BLD.load_specs(['accumulate'])
        e = BLD.emit_function('accumulate', spec)
        assert 'compensation' in e['text']
    except Exception as ex:
        print('selftest extraction failed:', ex)
        return 1
    print('selftest ok')
    return 0


def main():
    a = sys.argv[1:]
    if not a or a[0] in ('-h', '--help'):
        print(__doc__)
        return 0
    if a[0] == '--selftest':
        return selftest()
    if a[0] == '--list':
        for p in sorted(PROPS):
            print(p)
        return 0
    pid = a[0]
    tier = os.environ.get('VERIF_TIER', 'quick')
    if '--tier' in a:
        tier = a[a.index('--tier') + 1]
    seed = int(os.environ.get('VERIF_SEED', '1'))
    if '--replay' in a:
        path = a[a.index('--replay') + 1]
        rec = json.load(open(path))
        rep = NAT.find_replay(rec['job'])
        if not rep:
            print('no native replay harness for job', rec['job'])
            print(json.dumps(rec, indent=1)[:3000])
            return 1
        ok, txt = NAT.run_replay(rep, rec, print)
        print(txt)
        print('reproduced on the real code:', ok)
        return 1 if ok else 0
    return check_property(pid, tier, seed)


if __name__ == '__main__':
    sys.exit(main())
