#!/usr/bin/env python3
"""Back end B2: weakest-precondition style symbolic evaluation of LOOP-FREE extracted C text into
SMT-LIB (DESIGN.md 3.4).

  Int mode : size_t / int values are SMT Ints; for every arithmetic sub-expression the side
             condition "0 <= e < 2^64" (or the int range) and "divisor != 0" is collected into
             <fn>__ok, which the property file must prove.  With those discharged the machine
             result equals the mathematical one.
  Real mode: T values are SMT Reals (machine arithmetic treated as mathematical: an assumption
             that every evidence file using it lists).

The input is the same emitted text the B1 path compiles; nothing is modelled by hand.
"""
import re, os, subprocess, time, json, sys

sys.path.insert(0, os.path.dirname(os.path.abspath(__file__)))


class WPError(Exception):
    pass


TOK = re.compile(r'\s*(?:(\d+\.\d*(?:[eE][-+]?\d+)?[fFlL]?|\.\d+(?:[eE][-+]?\d+)?[fFlL]?|\d+[eE][-+]?\d+[fFlL]?)|(\d+)[uUlL]*|([A-Za-z_]\w*)|(->|\+\+|--|<<|>>|<=|>=|==|!=|&&|\|\||[-+*/%<>=!?:;,(){}\[\].&|^~]=?))')


def tokenize(s):
    out = []
    i = 0
    s = re.sub(r'#line[^\n]*\n', '\n', s)
    s = re.sub(r'#pragma[^\n]*\n', '\n', s)
    while i < len(s):
        m = TOK.match(s, i)
        if not m:
            if s[i:].strip() == '':
                break
            raise WPError('cannot tokenize at: ' + s[i:i + 40])
        i = m.end()
        if m.group(1):
            out.append(('flt', m.group(1)))
        elif m.group(2):
            out.append(('int', m.group(2)))
        elif m.group(3):
            out.append(('id', m.group(3)))
        else:
            out.append(('op', m.group(4)))
    return out


TYPES = {'T', 'size_t', 'int', '_Bool', 'long', 'unsigned', 'double', 'float'}


class Parser:
    def __init__(self, toks):
        self.t = toks
        self.i = 0

    def peek(self, k=0):
        return self.t[self.i + k] if self.i + k < len(self.t) else ('eof', '')

    def eat(self, val=None):
        tk = self.peek()
        if val is not None and tk[1] != val:
            raise WPError('expected %r, got %r at token %d' % (val, tk[1], self.i))
        self.i += 1
        return tk

    # expressions ---------------------------------------------------------------------
    def expr(self):
        return self.assign()

    def assign(self):
        lhs = self.ternary()
        tk = self.peek()
        if tk[0] == 'op' and tk[1] in ('=', '+=', '-=', '*=', '/=', '%='):
            self.eat()
            rhs = self.assign()
            return ('assign', tk[1], lhs, rhs)
        return lhs

    def ternary(self):
        c = self.binary(0)
        if self.peek()[1] == '?':
            self.eat('?')
            a = self.expr()
            self.eat(':')
            b = self.ternary()
            return ('ite', c, a, b)
        return c

    PREC = [['||'], ['&&'], ['==', '!='], ['<', '<=', '>', '>='], ['+', '-'], ['*', '/', '%']]

    def binary(self, lvl):
        if lvl == len(self.PREC):
            return self.unary()
        a = self.binary(lvl + 1)
        while self.peek()[0] == 'op' and self.peek()[1] in self.PREC[lvl]:
            op = self.eat()[1]
            b = self.binary(lvl + 1)
            a = ('bin', op, a, b)
        return a

    def unary(self):
        tk = self.peek()
        if tk[1] == '!':
            self.eat()
            return ('not', self.unary())
        if tk[1] == '-':
            self.eat()
            return ('neg', self.unary())
        if tk[1] == '+':
            self.eat()
            return self.unary()
        if tk[1] == '*':
            self.eat()
            return ('deref', self.unary())
        if tk[1] == '&':
            self.eat()
            return ('addr', self.unary())
        if tk[1] == '(':
            # cast?
            if self.peek(1)[0] == 'id' and self.peek(1)[1] in TYPES and self.peek(2)[1] == ')':
                self.eat('(')
                ty = self.eat()[1]
                self.eat(')')
                return ('cast', ty, self.unary())
        return self.postfix()

    def postfix(self):
        tk = self.eat()
        if tk[0] == 'int':
            e = ('int', int(tk[1]))
        elif tk[0] == 'flt':
            e = ('flt', tk[1].rstrip('fFlL'))
        elif tk[0] == 'id':
            e = ('var', tk[1])
        elif tk[1] == '(':
            e = self.expr()
            self.eat(')')
        else:
            raise WPError('unexpected token %r' % (tk,))
        while True:
            tk = self.peek()
            if tk[1] == '(':
                self.eat()
                args = []
                if self.peek()[1] != ')':
                    args.append(self.assign())
                    while self.peek()[1] == ',':
                        self.eat()
                        args.append(self.assign())
                self.eat(')')
                e = ('call', e, args)
            elif tk[1] == '->':
                self.eat()
                e = ('member', ('deref', e), self.eat()[1])
            elif tk[1] == '.':
                self.eat()
                e = ('member', e, self.eat()[1])
            elif tk[1] == '[':
                self.eat()
                idx = self.expr()
                self.eat(']')
                e = ('index', e, idx)
            else:
                return e

    # statements ------------------------------------------------------------------------
    def block(self):
        self.eat('{')
        st = []
        while self.peek()[1] != '}':
            st.append(self.stmt())
        self.eat('}')
        return ('block', st)

    def stmt(self):
        tk = self.peek()
        if tk[1] == '{':
            return self.block()
        if tk[1] == ';':
            self.eat()
            return ('block', [])
        if tk[1] == 'if':
            self.eat()
            self.eat('(')
            c = self.expr()
            self.eat(')')
            a = self.stmt()
            b = ('block', [])
            if self.peek()[1] == 'else':
                self.eat()
                b = self.stmt()
            return ('if', c, a, b)
        if tk[1] == 'return':
            self.eat()
            e = None
            if self.peek()[1] != ';':
                e = self.expr()
            self.eat(';')
            return ('return', e)
        if tk[1] in ('for', 'while', 'do', 'goto', 'switch'):
            raise WPError('B2 handles loop-free code only (found %s)' % tk[1])
        # declaration?
        j = 0
        quals = []
        while self.peek(j)[0] == 'id' and self.peek(j)[1] in ('const', 'static', 'volatile', 'struct'):
            j += 1
        if self.peek(j)[0] == 'id' and self.peek(j)[1] in TYPES and self.peek(j + 1)[0] == 'id':
            for _ in range(j):
                self.eat()
            ty = self.eat()[1]
            while self.peek()[1] == 'const':
                self.eat()
            name = self.eat()[1]
            init = None
            if self.peek()[1] == '=':
                self.eat()
                init = self.expr()
            self.eat(';')
            return ('decl', ty, name, init)
        e = self.expr()
        self.eat(';')
        return ('expr', e)


def parse_function(text):
    """text: 'RET name(params) [contracts] { body }' -> (ret, name, [(type,name)], body)"""
    text = re.sub(r'#line[^\n]*', '', text)
    text = re.sub(r'#pragma[^\n]*', '', text)
    m = re.match(r'\s*([\w\s\*]+?)\s+(\w+)\s*\(([^)]*)\)', text)
    if not m:
        raise WPError('cannot parse signature: ' + text[:80])
    ret, name, ps = m.group(1).strip(), m.group(2), m.group(3).strip()
    params = []
    if ps and ps != 'void':
        for p in ps.split(','):
            p = p.strip()
            mm = re.match(r'^(?:const\s+)?(?:struct\s+)?([\w]+)\s*(\*?)\s*(?:const\s+)?(\w+)$', p)
            if not mm:
                raise WPError('cannot parse parameter: ' + p)
            params.append((mm.group(1) + mm.group(2), mm.group(3)))
    body_start = text.index('{', m.end())
    toks = tokenize(text[body_start:])
    p = Parser(toks)
    body = p.block()
    return ret, name, params, body


# ----------------------------------------------------------------------------------------
# symbolic evaluation
# ----------------------------------------------------------------------------------------

INT_RANGES = {'size_t': (0, 2 ** 64 - 1), 'int': (-2 ** 31, 2 ** 31 - 1), '_Bool': (0, 1), 'long': (-2 ** 63, 2 ** 63 - 1)}


def smt_int(n):
    return str(n) if n >= 0 else '(- %d)' % (-n)


class SymEval:
    """evaluates the function body over SMT terms; every value is (term, ctype)."""

    def __init__(self, mode, funcs, real_sqrt=True):
        self.mode = mode          # 'int' | 'real'
        self.funcs = funcs        # name -> (params, ret type) of other extracted functions (define-funs)
        self.side = []            # (path condition, obligation term, text)
        self.fresh = 0
        self.decls = []           # extra declare-consts (sqrt symbols ...)
        self.axioms = []

    def rng_ok(self, term, cty):
        lo, hi = INT_RANGES[cty]
        return '(and (<= %s %s) (<= %s %s))' % (smt_int(lo), term, term, smt_int(hi))

    def is_fp(self, cty):
        return cty in ('T', 'double', 'float')

    def conv(self, val, to):
        term, cty = val
        if cty == to:
            return val
        if self.is_fp(to):
            if self.is_fp(cty):
                return (term, to)
            if self.mode == 'real':
                return ('(to_real %s)' % term, to)
            raise WPError('floating point in Int mode')
        # to integer type
        if self.is_fp(cty):
            if self.mode == 'real':
                # truncation toward zero of a non-negative real
                self.side.append((self.pc, '(>= %s 0.0)' % term, 'float->size_t conversion of a non-negative value'))
                return ('(to_int %s)' % term, to)
            raise WPError('floating point in Int mode')
        if cty == 'bool':
            return ('(ite %s 1 0)' % term, to)
        # int -> int: value must fit (obligation), then it is unchanged
        lo, hi = INT_RANGES[to]
        slo, shi = INT_RANGES.get(cty, (lo, hi))
        if slo < lo or shi > hi:
            self.side.append((self.pc, self.rng_ok(term, to), 'conversion %s -> %s keeps the value' % (cty, to)))
        return (term, to)

    def tobool(self, val):
        term, cty = val
        if cty == 'bool':
            return term
        if self.is_fp(cty):
            return '(not (= %s 0.0))' % term
        return '(not (= %s 0))' % term

    def arith_type(self, a, b):
        if self.is_fp(a) or self.is_fp(b):
            return 'T'
        if a == 'bool':
            a = 'int'
        if b == 'bool':
            b = 'int'
        if 'size_t' in (a, b):
            return 'size_t'
        if 'long' in (a, b):
            return 'long'
        return 'int'

    def ev(self, e, env):
        k = e[0]
        if k == 'int':
            return (smt_int(e[1]), 'int' if e[1] < 2 ** 31 else 'size_t')
        if k == 'flt':
            if self.mode != 'real':
                raise WPError('floating literal in Int mode')
            v = e[1]
            from fractions import Fraction
            fr = Fraction(v)
            return ('(/ %d.0 %d.0)' % (fr.numerator, fr.denominator), 'T')
        if k == 'var':
            if e[1] not in env:
                raise WPError('unknown variable ' + e[1])
            return env[e[1]]
        if k == 'cast':
            return self.conv(self.ev(e[2], env), e[1])
        if k == 'deref':
            v = self.ev(e[1], env)
            return v
        if k == 'member':
            base = e[1]
            if base[0] == 'deref':
                base = base[1]
            if base[0] == 'var':
                key = base[1] + '.' + e[2]
                if key in env:
                    return env[key]
            raise WPError('unsupported member access')
        if k == 'not':
            return ('(not %s)' % self.tobool(self.ev(e[1], env)), 'bool')
        if k == 'neg':
            v = self.ev(e[1], env)
            if self.is_fp(v[1]):
                return ('(- %s)' % v[0], v[1])
            r = ('(- %s)' % v[0], 'int' if v[1] in ('int', 'bool') else v[1])
            self.side.append((self.pc, self.rng_ok(r[0], r[1]), 'negation in range'))
            return r
        if k == 'ite':
            c = self.tobool(self.ev(e[1], env))
            save = self.pc
            self.pc = '(and %s %s)' % (save, c)
            a = self.ev(e[2], env)
            self.pc = '(and %s (not %s))' % (save, c)
            b = self.ev(e[3], env)
            self.pc = save
            ty = self.arith_type(a[1], b[1]) if a[1] != b[1] else a[1]
            a = self.conv(a, ty)
            b = self.conv(b, ty)
            return ('(ite %s %s %s)' % (c, a[0], b[0]), ty)
        if k == 'bin':
            op = e[1]
            if op in ('&&', '||'):
                a = self.tobool(self.ev(e[2], env))
                save = self.pc
                self.pc = '(and %s %s)' % (save, a if op == '&&' else '(not %s)' % a)
                b = self.tobool(self.ev(e[3], env))
                self.pc = save
                return ('(%s %s %s)' % ('and' if op == '&&' else 'or', a, b), 'bool')
            a = self.ev(e[2], env)
            b = self.ev(e[3], env)
            ty = self.arith_type(a[1], b[1])
            a2 = self.conv(a, ty)
            b2 = self.conv(b, ty)
            if op in ('<', '<=', '>', '>=', '==', '!='):
                if op == '!=':
                    return ('(not (= %s %s))' % (a2[0], b2[0]), 'bool')
                return ('(%s %s %s)' % ('=' if op == '==' else op, a2[0], b2[0]), 'bool')
            if self.is_fp(ty):
                if op == '/':
                    self.side.append((self.pc, '(not (= %s 0.0))' % b2[0], 'real division by non-zero'))
                if op == '%':
                    raise WPError('% on floating point')
                return ('(%s %s %s)' % (op, a2[0], b2[0]), ty)
            if op in ('/', '%'):
                self.side.append((self.pc, '(not (= %s 0))' % b2[0], 'division by zero'))
                # C division truncates toward zero; SMT div is floor for positive divisor: equal for a >= 0, b > 0
                if ty != 'size_t':
                    self.side.append((self.pc, '(and (>= %s 0) (> %s 0))' % (a2[0], b2[0]), 'signed division on non-negative operands'))
                r = ('(%s %s %s)' % ('div' if op == '/' else 'mod', a2[0], b2[0]), ty)
                return r
            r = ('(%s %s %s)' % (op, a2[0], b2[0]), ty)
            self.side.append((self.pc, self.rng_ok(r[0], ty), 'no wrap-around in %s %s %s' % (self.show(e[2]), op, self.show(e[3]))))
            return r
        if k == 'call':
            f = e[1]
            if f[0] != 'var':
                raise WPError('indirect call')
            name = f[1]
            args = []
            for a in e[2]:
                b = a
                while b[0] in ('addr', 'deref'):
                    b = b[1]
                if b[0] == 'var' and b[1] not in env and any(k.startswith(b[1] + '.') for k in env):
                    # a class object handed on: its data members, in declaration order
                    args += [env[k] for k in env if k.startswith(b[1] + '.')]
                else:
                    args.append(self.ev(a, env))
            if name in self.funcs:
                ps, rty = self.funcs[name]
                if len(ps) != len(args):
                    raise WPError('call of %s with a class object argument is not supported' % name)
                al = [self.conv(a, pty)[0] for a, (pty, _) in zip(args, ps)]
                self.side.append((self.pc, '(%s__ok %s)' % (name, ' '.join(al)), 'callee %s side conditions' % name))
                return ('(%s %s)' % (name, ' '.join(al)), rty)
            if name == 'vp_sqrt' and self.mode == 'real':
                # sqrt is an uninterpreted function vp_sqrt_r; the property file instantiates its axiom where needed
                return ('(vp_sqrt_r %s)' % args[0][0], 'T')
            if name == 'vp_fabs' and self.mode == 'real':
                return ('(ite (< %s 0.0) (- %s) %s)' % (args[0][0], args[0][0], args[0][0]), 'T')
            if name in ('vp_max_sz', 'vp_min_sz'):
                a, b = args
                return ('(ite (%s %s %s) %s %s)' % ('<' if name == 'vp_max_sz' else '>', a[0], b[0], b[0], a[0]), 'size_t')
            raise WPError('call to unmodelled function ' + name)
        if k == 'assign':
            raise WPError('assignment inside expression')
        raise WPError('unsupported expression ' + k)

    def show(self, e):
        k = e[0]
        if k == 'var':
            return e[1]
        if k == 'int':
            return str(e[1])
        if k == 'bin':
            return '(%s %s %s)' % (self.show(e[2]), e[1], self.show(e[3]))
        if k == 'cast':
            return '(%s)%s' % (e[1], self.show(e[2]))
        return k

    # statements: returns list of (path condition, return value) ; env updated functionally
    def run(self, st, env, pc):
        """returns (env', pc_continue, returns[])"""
        k = st[0]
        if k == 'block':
            rets = []
            for s in st[1]:
                env, pc, r = self.run(s, env, pc)
                rets += r
            return env, pc, rets
        self.pc = pc
        if k == 'decl':
            _, ty, name, init = st
            env = dict(env)
            if init is None:
                env[name] = ('0', ty)
            else:
                env[name] = self.conv(self.ev(init, env), ty)
            return env, pc, []
        if k == 'expr':
            e = st[1]
            if e[0] == 'assign':
                op, lhs, rhs = e[1], e[2], e[3]
                if lhs[0] == 'deref':
                    lhs = lhs[1]
                if lhs[0] != 'var':
                    raise WPError('assignment to non-variable')
                if op != '=':
                    rhs = ('bin', op[:-1], lhs, rhs)
                env = dict(env)
                env[lhs[1]] = self.conv(self.ev(rhs, env), env[lhs[1]][1])
                return env, pc, []
            self.ev(e, env)
            return env, pc, []
        if k == 'return':
            if st[1] is None:
                return env, 'false', [(pc, None)]
            v = self.ev(st[1], env)
            return env, 'false', [(pc, v)]
        if k == 'if':
            c = self.tobool(self.ev(st[1], env))
            e1, pc1, r1 = self.run(st[2], env, '(and %s %s)' % (pc, c))
            e2, pc2, r2 = self.run(st[3], env, '(and %s (not %s))' % (pc, c))
            # merge environments
            env3 = {}
            for kx in env:
                a = e1.get(kx, env[kx])
                b = e2.get(kx, env[kx])
                if a == b:
                    env3[kx] = a
                else:
                    env3[kx] = ('(ite %s %s %s)' % (c, a[0], b[0]), a[1])
            pc3 = '(or %s %s)' % (pc1, pc2)
            return env3, pc3, r1 + r2
        raise WPError('unsupported statement ' + k)


def smt_sort(cty, mode):
    if cty in ('T', 'double', 'float'):
        return 'Real'
    return 'Int'


def define_function(text, mode, funcs, free=(), structs=None):
    """returns SMT-LIB text defining <name> and <name>__ok, and the signature"""
    ret, name, params, body = parse_function(text)
    se = SymEval(mode, funcs)
    env = {}
    structs = structs or {}
    expanded = []
    for (ty, nm) in params:
        ty0 = ty.rstrip('*')
        if ty0 in structs:
            # a class object passed by pointer: one SMT parameter per data member
            for (fty, fnm) in structs[ty0]:
                sym = '%s__%s' % (nm, fnm)
                env['%s.%s' % (nm, fnm)] = (sym, fty)
                expanded.append((fty, sym))
            continue
        env[nm] = (nm, ty0)
        expanded.append((ty, nm))
    params = expanded
    se.pc = 'true'
    env2, pc, rets = se.run(body, env, 'true')
    if not rets:
        raise WPError('function %s has no return' % name)
    # value = nested ite over return paths
    rty = ret
    val = None
    for pcx, v in reversed(rets):
        v = se.conv(v, rty) if v is not None else None
        if val is None:
            val = v[0]
        else:
            val = '(ite %s %s %s)' % (pcx, v[0], val)
    freenames = set(nm for (_, nm, _) in free)
    out = []
    for (ty, nm, srctext) in free:
        # a value the fragment reads that is neither a parameter nor computed from them: universally quantified
        out.append('(declare-const %s %s) ; free: %s' % (nm, smt_sort(ty, mode), srctext.replace('\n', ' ')))
        if ty in INT_RANGES:
            out.append('(assert %s)' % se.rng_ok(nm, ty))
    params = [(ty, nm) for (ty, nm) in params if nm not in freenames]
    ps = ' '.join('(%s %s)' % (nm, smt_sort(ty, mode)) for ty, nm in params)
    ok_terms = ['(=> %s %s)' % (p, o) for (p, o, _) in se.side] or ['true']
    pre_rng = [se.rng_ok(nm, ty.rstrip('*')) for ty, nm in params if ty.rstrip('*') in INT_RANGES]
    if se.decls:
        raise WPError('fresh symbols (sqrt) are not supported inside define-fun; use fragment mode')
    out.append('(define-fun %s (%s) %s %s)' % (name, ps, smt_sort(rty, mode), val))
    out.append('(define-fun %s__ok (%s) Bool (and %s))' % (name, ps, ' '.join(ok_terms)))
    out.append('(define-fun %s__dom (%s) Bool (and true %s))' % (name, ps, ' '.join(pre_rng)))
    return '\n'.join(out), (name, params, rty), [t for (_, _, t) in se.side]


def define_out_functions(text, cname, ctor, members, mode, funcs, structs=None):
    """the extracted function ends in `{ <ctor>(vp_ret, a1, ..., an);  return; };` - split it into n functions returning a_k"""
    text = re.sub(r'#line[^\n]*', '', text)
    text = re.sub(r'#pragma[^\n]*', '', text)
    m = list(re.finditer(r'\{\s*' + re.escape(ctor) + r'\(vp_ret,(.*?)\);\s*return;\s*\};?', text, re.S))
    if len(m) != 1:
        raise WPError('%s: expected exactly one `%s(vp_ret, ...); return;`, found %d' % (cname, ctor, len(m)))
    args, depth, cur = [], 0, ''
    for ch in m[0].group(1):
        if ch == ',' and depth == 0:
            args.append(cur.strip()); cur = ''
            continue
        depth += ch in '([' ; depth -= ch in ')]'
        cur += ch
    args.append(cur.strip())
    if len(args) != len(members):
        raise WPError('%s: constructor %s called with %d arguments, expected %d' % (cname, ctor, len(args), len(members)))
    sig = re.match(r'\s*void\s+' + re.escape(cname) + r'\s*\(\s*struct\s+\w+\s*\*\s*vp_ret\s*,', text)
    if not sig:
        raise WPError('%s: signature does not start with the out-struct parameter' % cname)
    out = []
    for (fty, fnm), a in zip(members, args):
        t = '%s %s__%s(' % (fty, cname, fnm) + text[sig.end():m[0].start()] + 'return %s; }' % a
        d, (name, params, rty), side = define_function(t, mode, funcs, structs=structs)
        out.append((d, name, params, rty, side))
    return out


# ----------------------------------------------------------------------------------------
# solvers
# ----------------------------------------------------------------------------------------

def run_solver(solver, smt, timeout):
    cmd = {'z3': ['z3', '-in', '-T:%d' % timeout], 'z3-new': ['z3-new', '-in', '-T:%d' % timeout],
           'cvc5': ['cvc5', '--lang=smt2', '--tlimit=%d' % (timeout * 1000)]}[solver]
    t0 = time.time()
    try:
        p = subprocess.run(cmd, input=smt, stdout=subprocess.PIPE, stderr=subprocess.PIPE, text=True, timeout=timeout + 10)
        out = p.stdout.strip()
    except subprocess.TimeoutExpired:
        out = 'timeout'
    return out, time.time() - t0


def run_portfolio(solvers, smt, timeout, need, want_sat=False):
    """all solvers in parallel; stop as soon as `need` of them said unsat (or one said sat)"""
    procs = {}
    t0 = time.time()
    for s in solvers:
        cmd = {'z3': ['z3', '-in', '-T:%d' % timeout], 'z3-new': ['z3-new', '-in', '-T:%d' % timeout],
               'cvc5': ['cvc5', '--lang=smt2', '--tlimit=%d' % (timeout * 1000)]}[s]
        p = subprocess.Popen(cmd, stdin=subprocess.PIPE, stdout=subprocess.PIPE, stderr=subprocess.DEVNULL, text=True)
        try:
            p.stdin.write(smt)
            p.stdin.close()
        except BrokenPipeError:
            pass
        procs[s] = p
    verdicts, secs = {}, {}
    while procs and time.time() - t0 < timeout + 10:
        for s, p in list(procs.items()):
            if p.poll() is not None:
                out = p.stdout.read().strip()
                verdicts[s] = out.split('\n')[0] if out else ''
                secs[s] = time.time() - t0
                del procs[s]
        n_unsat = sum(1 for v in verdicts.values() if v == 'unsat')
        n_sat = sum(1 for v in verdicts.values() if v == 'sat')
        if n_unsat >= min(need, len(solvers)) or n_sat >= 1:
            break
        time.sleep(0.01)
    for s, p in procs.items():
        p.kill()
        verdicts[s] = 'stopped'
        secs[s] = time.time() - t0
    return verdicts, secs


def parse_property_file(path):
    """
    ; @obligation C16.contig  <free text>
    (assert (not (=> hyp concl)))        -- one obligation = the text until the next marker
    ; @common   ... declarations shared by all obligations
    """
    common = []
    obs = []
    cur = None
    for l in open(path).read().split('\n'):
        m = re.match(r'^;\s*@obligation\s+([\w.\-]+)\s*(.*)$', l)
        if m:
            cur = dict(name=m.group(1), what=m.group(2), text=[])
            obs.append(cur)
            continue
        if re.match(r'^;\s*@common', l):
            cur = None
            continue
        if cur is None:
            common.append(l)
        else:
            cur['text'].append(l)
    return '\n'.join(common), obs


def run_job(job, tier='quick'):
    import build as BLD
    try:
        key = b''.join(BLD.emit_function(c, {})['text'].encode() for c in job['functions']) + b''.join(BLD.emit_fragment(f)['text'].encode() for f in job.get('fragments', []))
    except Exception:
        return run_job_uncached(job, tier)
    key += open(os.path.join(BLD.ROOT, job['property_file']), 'rb').read()
    return BLD.cached(job, tier, key, lambda: run_job_uncached(job, tier))


def run_job_uncached(job, tier='quick'):
    import build as BLD
    import extract as X
    t0 = time.time()
    res = dict(job=job['name'], status='error', obligations=[], notes=[], cmds=[], secs=0, meta=dict(functions=[], fired={}))
    mode = job['mode']
    defs = []
    funcs = {}
    try:
        for cname in job['functions']:
            e = BLD.emit_function(cname, {})
            res['meta']['functions'] += e['audit']
            if cname in job.get('out_struct', {}):
                # a function returning a class object built by ONE constructor call `{ ctor(vp_ret, a1..an); return; }`:
                # one SMT function per constructor argument, <fn>__<member>, generated from the same extracted text
                ctor, members = job['out_struct'][cname]
                for (d, name, params, rty, side) in define_out_functions(e['text'], cname, ctor, members, mode, funcs, job.get('structs')):
                    funcs[name] = (params, rty)
                    defs.append('; ---- generated from the extracted text of %s, constructor argument %s (%d side conditions) ----\n%s' % (cname, name, len(side), d))
                continue
            d, (name, params, rty), side = define_function(e['text'], mode, funcs, structs=job.get('structs'))
            funcs[name] = (params, rty)
            defs.append('; ---- generated from the extracted text of %s (%d side conditions) ----\n%s' % (cname, len(side), d))
        for frag in job.get('fragments', []):
            e = BLD.emit_fragment(frag)
            res['meta']['functions'] += e['audit']
            d, (name, params, rty), side = define_function(e['text'], mode, funcs, free=e.get('free', ()))
            funcs[name] = (params, rty)
            defs.append('; ---- generated from the extracted fragment %s ----\n%s' % (frag, d))
    except X.ExtractError as ex:
        res['status'] = 'extract-error'
        res['notes'].append(str(ex))
        return res
    except WPError as ex:
        res['status'] = 'extract-error'
        res['notes'].append('B2: ' + str(ex))
        return res
    common, obs = parse_property_file(os.path.join(BLD.ROOT, job['property_file']))
    solvers = job.get('solvers', ['z3', 'z3-new', 'cvc5'] if mode == 'int' else ['z3', 'z3-new'])
    logic = '(set-logic ALL)\n' if mode == 'int' else '(declare-fun vp_sqrt_r (Real) Real)\n'
    os.makedirs(BLD.OUT, exist_ok=True)
    timeout = 60 if tier == 'quick' else 300
    for ob in obs:
        smt = logic + '\n'.join(defs) + '\n' + common + '\n' + '\n'.join(ob['text']) + '\n(check-sat)\n'
        path = os.path.join(BLD.OUT, '%s_%s.smt2' % (job['name'], ob['name']))
        open(path, 'w').write(smt)
        verdicts, secs = run_portfolio(solvers, smt, timeout, job.get('need', 2), ob['name'].endswith('_sat_expected'))
        res['cmds'].append('%s < %s' % (' / '.join(solvers), path))
        vs = set(verdicts.values())
        need = job.get('need', 2)
        n_unsat = sum(1 for v in verdicts.values() if v == 'unsat')
        if 'sat' in vs and 'unsat' in vs:
            st = 'undecided'
            res['notes'].append('solvers disagree on %s: %s' % (ob['name'], verdicts))
        elif ob['name'].endswith('_sat_expected'):
            st = 'proved' if ('sat' in vs and 'unsat' not in vs) else ('failed' if 'unsat' in vs else 'undecided')
        elif 'sat' in vs:
            st = 'failed'
        elif n_unsat >= min(need, len(solvers)):
            st = 'proved'
        else:
            st = 'undecided'
            res['notes'].append('%s: %s' % (ob['name'], verdicts))
        o = dict(id='%s.%s' % (job['name'], ob['name']), name=ob['name'], kind='property', status=st,
                 description='%s: %s' % (ob['name'], ob['what']), kind2=('vacuity' if ob['name'].endswith('_sat_expected') else 'property'), loc='%s' % os.path.basename(job['property_file']),
                 solver=','.join('%s=%s' % kv for kv in sorted(verdicts.items())), secs=min(secs.values()), real=mode, job=job['name'])
        if st == 'failed':
            # get a model from z3
            msmt = smt + '(get-model)\n'
            out, _ = run_solver('z3', msmt, timeout)
            model = {}
            for mm in re.finditer(r'\(define-fun\s+([\w.]+)\s+\(\)\s+(Int|Real|Bool)\s+([^\n]*?)\)\s*(?=\(define-fun|\)\s*$|$)', out.replace('\n', ' ')):
                v = mm.group(3).strip()
                v = re.sub(r'^\(-\s*(\S+)\)$', r'-\1', v)
                if re.match(r'^-?[\d.]+$', v) or v in ('true', 'false'):
                    model[mm.group(1)] = dict(data=v, binary=None)
            model['_smt_file'] = dict(data=path, binary=None)
            o['model'] = model
            o['trace'] = None
        res['obligations'].append(o)
    sts = [o['status'] for o in res['obligations']]
    if not sts:
        res['status'] = 'vacuity-alarm'
        res['notes'].append('no obligations in ' + job['property_file'])
    elif 'failed' in sts:
        res['status'] = 'failed'
    elif 'undecided' in sts:
        res['status'] = 'undecided'
    else:
        res['status'] = 'proved'
    # vacuity: the hypotheses of each obligation file must be satisfiable: "@sanity" obligations must be SAT
    res['secs'] = time.time() - t0
    return res
