#!/usr/bin/env python3
"""Run checks against a patch applied to a scratch worktree of /repo (never to /repo itself).

  vp/try_patch.py <patch.diff> <Cxx> [<Cxx> ...]      prints one line per property: exit code, VIOLATION lines, failing obligations

The worktree lives under /tmp, the evidence of these runs goes to a scratch directory (the committed evidence/ is not touched),
the verdict cache of /verif/out is shared (keys are the extracted text, so the unchanged functions are reused)."""
import os, sys, subprocess, tempfile, shutil, json, re

HERE = os.path.dirname(os.path.abspath(__file__))
ROOT = os.path.dirname(HERE)


def main():
    patch = os.path.abspath(sys.argv[1])
    props = sys.argv[2:]
    wt = tempfile.mkdtemp(prefix='vp_wt_', dir='/tmp')
    os.rmdir(wt)
    subprocess.check_call(['git', '-C', '/repo', 'worktree', 'add', '--detach', wt, 'HEAD'], stdout=subprocess.DEVNULL, stderr=subprocess.DEVNULL)
    evid = tempfile.mkdtemp(prefix='vp_ev_', dir='/tmp')
    out = []
    try:
        subprocess.check_call(['git', '-C', wt, 'apply', patch])
        env = dict(os.environ, VP_REPO_INC=os.path.join(wt, 'include'), VP_EVID=evid)
        procs = {p: subprocess.Popen([os.path.join(ROOT, 'check'), p, '--tier', 'quick'], cwd=ROOT, env=env, stdout=subprocess.PIPE,
                                     stderr=subprocess.STDOUT, text=True) for p in props}
        for p, pr in procs.items():
            txt = pr.communicate()[0]
            viol = [l for l in txt.split('\n') if l.startswith('VIOLATION')]
            fails = [l.strip() for l in txt.split('\n') if 'failed obligation' in l or l.startswith('ERROR') or l.startswith('UNDECIDED')]
            out.append(dict(property=p, exit=pr.returncode, violations=len(viol), detail=fails[:6]))
            print('%s exit=%d violations=%d' % (p, pr.returncode, len(viol)))
            for f in fails[:6]:
                print('    ' + f[:260])
            if os.environ.get('VP_TRY_VERBOSE'):
                print(txt[-3000:])
    finally:
        subprocess.call(['git', '-C', '/repo', 'worktree', 'remove', '--force', wt], stdout=subprocess.DEVNULL, stderr=subprocess.DEVNULL)
        shutil.rmtree(evid, ignore_errors=True)
    if os.environ.get('VP_TRY_JSON'):
        json.dump(out, open(os.environ['VP_TRY_JSON'], 'w'), indent=1)


if __name__ == '__main__':
    main()
