// Explicit instantiations whose clang AST guides the extraction (T = double).
#include "hep/mc.hpp"
#include <random>
namespace vpinst {
// user code: only declarations (modelled by contract stubs)
struct Fn {
    double operator()(hep::mc_point<double> const&) const;
    double operator()(hep::mc_point<double> const&, hep::projector<double>&) const;
};
typedef hep::integrand<double, Fn, false> Integrand;
typedef hep::integrand<double, Fn, true> IntegrandD;
}
template void hep::accumulate<double>(double&, double&, double&, double);
template class hep::vegas_pdf<double>;
template double hep::vegas_icdf<double>(hep::vegas_pdf<double> const&, std::vector<double>&, std::vector<std::size_t>&);
template hep::vegas_pdf<double> hep::vegas_refine_pdf<double>(hep::vegas_pdf<double> const&, double, std::vector<double> const&);
template std::vector<double> hep::multi_channel_refine_weights<double>(std::vector<double> const&, std::vector<double> const&, double, double);
template class hep::accumulator<double, false>;
template class hep::accumulator<double, true>;
template double hep::accumulator<double, false>::invoke<vpinst::Integrand, hep::mc_point<double>>(vpinst::Integrand&, hep::mc_point<double> const&);
template double hep::accumulator<double, true>::invoke<vpinst::IntegrandD, hep::mc_point<double>>(vpinst::IntegrandD&, hep::mc_point<double> const&);
template class hep::projector<double>;
template class hep::mc_result<double>;
template class hep::plain_result<double>;
template class hep::distribution_parameters<double>;
template class hep::distribution_result<double>;
template class hep::mc_point<double>;
template class hep::vegas_point<double>;
template hep::mc_result<double> hep::create_result<double>(std::size_t, std::size_t, std::size_t, double, double);
template std::vector<double> hep::mid_points_x<double>(hep::distribution_result<double> const&);
template std::vector<double> hep::mid_points_y<double>(hep::distribution_result<double> const&);
