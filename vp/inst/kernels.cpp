// Explicit instantiations whose clang AST guides the extraction (T = double).
#include "hep/mc.hpp"
#include "hep/mc/generator_helper.hpp"
#include <random>
namespace vpinst {
struct Integrand;
}
template void hep::accumulate<double>(double&, double&, double&, double);
template class hep::vegas_pdf<double>;
template double hep::vegas_icdf<double>(hep::vegas_pdf<double> const&, std::vector<double>&, std::vector<std::size_t>&);
template hep::vegas_pdf<double> hep::vegas_refine_pdf<double>(hep::vegas_pdf<double> const&, double, std::vector<double> const&);
template std::vector<double> hep::multi_channel_refine_weights<double>(std::vector<double> const&, std::vector<double> const&, double, double);
