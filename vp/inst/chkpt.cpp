// Instantiations of the checkpoint classes (T = double, engine = std::mt19937) for the AST dump.
#include "hep/mc.hpp"
#include <random>
template class hep::chkpt<hep::plain_result<double>>;
template class hep::chkpt_with_rng<std::mt19937, hep::plain_chkpt<double>>;
template class hep::vegas_chkpt<double>;
template class hep::chkpt_with_rng<std::mt19937, hep::vegas_chkpt<double>>;
template class hep::multi_channel_chkpt<double>;
template class hep::chkpt_with_rng<std::mt19937, hep::multi_channel_chkpt<double>>;
template class hep::callback<hep::plain_chkpt_with_rng<std::mt19937, double>>;
template struct hep::weighted_with_variance<std::vector<hep::mc_result<double>>::const_iterator>;
template struct hep::weighted_equally<std::vector<hep::mc_result<double>>::const_iterator>;
template double hep::chi_square_dof<hep::weighted_with_variance, std::vector<hep::mc_result<double>>::const_iterator>(std::vector<hep::mc_result<double>>::const_iterator, std::vector<hep::mc_result<double>>::const_iterator);
template void hep::multi_channel_summary<double>(hep::multi_channel_chkpt<double> const&, std::ostream&);
