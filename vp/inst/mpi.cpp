// Instantiations of the MPI drivers (T = double) for the AST dump.
#include "hep/mc-mpi.hpp"
#include <random>
#include <vector>
namespace vpinst {
double f(hep::mc_point<double> const&);
double fv(hep::vegas_point<double> const&);
double fm(hep::multi_channel_point<double> const&);
double map(std::size_t, std::vector<double> const&, std::vector<double>&, std::vector<std::size_t> const&, std::vector<double>&, hep::multi_channel_map);
void use()
{
    std::vector<std::size_t> calls(1, 10);
    hep::mpi_plain(MPI_COMM_WORLD, hep::make_integrand<double>(f, 1), calls);
    hep::mpi_vegas(MPI_COMM_WORLD, hep::make_integrand<double>(fv, 1), calls);
    hep::mpi_multi_channel(MPI_COMM_WORLD, hep::make_multi_channel_integrand<double>(fm, 1, map, 1, 1), calls);
}
}
template class hep::mpi_callback<hep::plain_chkpt_with_rng<std::mt19937, double>>;
