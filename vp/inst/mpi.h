/* Minimal MPI declarations, used ONLY so that clang can parse and instantiate the hep/mc-mpi.hpp
 * templates for the AST dump that guides extraction.  Never linked. */
#ifndef VP_MPI_STUB_H
#define VP_MPI_STUB_H
typedef int MPI_Comm;
typedef int MPI_Datatype;
typedef int MPI_Op;
#define MPI_COMM_WORLD 0
#define MPI_IN_PLACE ((void*)1)
#define MPI_SUM 1
#define MPI_UNSIGNED 1
#define MPI_UNSIGNED_LONG 2
#define MPI_UNSIGNED_LONG_LONG 3
#define MPI_FLOAT 4
#define MPI_DOUBLE 5
#define MPI_LONG_DOUBLE 6
extern "C" {
int MPI_Comm_rank(MPI_Comm, int*);
int MPI_Comm_size(MPI_Comm, int*);
int MPI_Allreduce(const void*, void*, int, MPI_Datatype, MPI_Op, MPI_Comm);
}
#endif
