// Instantiations of the MPI drivers (T = double) with opaque integrand / callback types, for the AST dump.
#include "hep/mc-mpi.hpp"
#include <random>
#include <vector>
namespace vpinst {
struct Fn {
    double operator()(hep::mc_point<double> const&) const;
    double operator()(hep::vegas_point<double> const&) const;
    template <typename M> double operator()(hep::multi_channel_point2<double, M> const&) const;
};
struct Map {
    double operator()(std::size_t, std::vector<double> const&, std::vector<double>&, std::vector<std::size_t> const&, std::vector<double>&, hep::multi_channel_map);
};
typedef hep::integrand<double, Fn, false> Integrand;
typedef hep::multi_channel_integrand<double, Fn, Map, false> MCIntegrand;
typedef std::mt19937 Rng;
typedef hep::plain_chkpt_with_rng<std::mt19937, double> PChk;
typedef hep::vegas_chkpt_with_rng<std::mt19937, double> VChk;
typedef hep::multi_channel_chkpt_with_rng<std::mt19937, double> MChk;
struct PCb { bool operator()(MPI_Comm, PChk const&); };
struct VCb { bool operator()(MPI_Comm, VChk const&); };
struct MCb { bool operator()(MPI_Comm, MChk const&); };
}
template vpinst::PChk hep::mpi_plain<vpinst::Integrand&, vpinst::PChk, vpinst::PCb>(MPI_Comm, vpinst::Integrand&, std::vector<std::size_t> const&, vpinst::PChk, vpinst::PCb);
template vpinst::VChk hep::mpi_vegas<vpinst::Integrand&, vpinst::VChk, vpinst::VCb>(MPI_Comm, vpinst::Integrand&, std::vector<std::size_t> const&, vpinst::VChk, vpinst::VCb);
template vpinst::MChk hep::mpi_multi_channel<vpinst::MCIntegrand&, vpinst::MChk, vpinst::MCb>(MPI_Comm, vpinst::MCIntegrand&, std::vector<std::size_t> const&, vpinst::MChk, vpinst::MCb);
