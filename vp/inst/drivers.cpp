// Instantiations of the per-iteration loops and the integrator drivers (T = double) for the AST dump.
#include "hep/mc.hpp"
#include <random>
namespace vpinst {
struct Fn {
    double operator()(hep::mc_point<double> const&) const;
    double operator()(hep::vegas_point<double> const&) const;
    template <typename M> double operator()(hep::multi_channel_point2<double, M> const&) const;
};
struct Map {
    double operator()(std::size_t, std::vector<double> const&, std::vector<double>&, std::vector<std::size_t> const&, std::vector<double>&, hep::multi_channel_map);
};
typedef hep::integrand<double, Fn, false> Integrand;
typedef hep::multi_channel_integrand<double, Fn, Map, false> MCIntegrand;
typedef std::mt19937 Rng;
}
template hep::plain_result<double> hep::plain_iteration<vpinst::Integrand&, vpinst::Rng>(vpinst::Integrand&, std::size_t, vpinst::Rng&);
template hep::vegas_result<double> hep::vegas_iteration<vpinst::Integrand&, vpinst::Rng>(vpinst::Integrand&, std::size_t, hep::vegas_pdf<double> const&, vpinst::Rng&);
template hep::multi_channel_result<double> hep::multi_channel_iteration<vpinst::MCIntegrand&, vpinst::Rng>(vpinst::MCIntegrand&, std::size_t, std::vector<double> const&, vpinst::Rng&);
template class hep::multi_channel_point2<double, vpinst::Map>;
template class hep::discrete_distribution<std::size_t, double>;
template hep::discrete_distribution<std::size_t, double>::discrete_distribution(std::vector<double>::const_iterator, std::vector<double>::const_iterator);
template std::size_t hep::discrete_distribution<std::size_t, double>::operator()<vpinst::Rng>(vpinst::Rng&) const;
namespace vpinst {
typedef hep::plain_chkpt_with_rng<std::mt19937, double> PChk;
typedef hep::vegas_chkpt_with_rng<std::mt19937, double> VChk;
typedef hep::multi_channel_chkpt_with_rng<std::mt19937, double> MChk;
struct PCb { bool operator()(PChk const&); };
struct VCb { bool operator()(VChk const&); };
struct MCb { bool operator()(MChk const&); };
}
template vpinst::PChk hep::plain<vpinst::Integrand&, vpinst::PChk, vpinst::PCb>(vpinst::Integrand&, std::vector<std::size_t> const&, vpinst::PChk, vpinst::PCb);
template vpinst::VChk hep::vegas<vpinst::Integrand&, vpinst::VChk, vpinst::VCb>(vpinst::Integrand&, std::vector<std::size_t> const&, vpinst::VChk, vpinst::VCb);
template vpinst::MChk hep::multi_channel<vpinst::MCIntegrand&, vpinst::MChk, vpinst::MCb>(vpinst::MCIntegrand&, std::vector<std::size_t> const&, vpinst::MChk, vpinst::MCb);
