#!/usr/bin/env python3
"""Regenerates /verif/MANIFEST.json from the claim table below (kept valid at all times)."""
import json, os
ROOT = os.path.dirname(os.path.dirname(os.path.abspath(__file__)))
props = [json.loads(l) for l in open(os.path.join(ROOT, 'properties.jsonl'))]

CLAIMS = {}   # id -> dict(text, note, technique, ref)
NA = {}       # id -> reason

exec(open(os.path.join(ROOT, 'vp', 'claims.py')).read())

checks = []
for p in props:
    i = p['id']
    if i in CLAIMS:
        c = CLAIMS[i]
        checks.append(dict(property_id=i, quick_cmd='./check %s --tier quick' % i, thorough_cmd='./check %s --tier thorough' % i,
                           evidence_file='evidence/%s.json' % i, replay_cmd_template='./check %s --replay {path}' % i,
                           engine='vp', level_claimed=dict(category='proof', text=c['text'], design_ref=c.get('ref', 'DESIGN.md section 5')),
                           level_note=c['note'], technique=c['technique']))
na = [dict(property_id=p['id'], reason=NA.get(p['id'], 'not built yet (see DESIGN.md section 8 for the build order)')) for p in props if p['id'] not in CLAIMS]
m = dict(version=1,
         setup_cmd='python3 -m compileall -q vp >/dev/null && ./check --selftest',
         hooks=dict(guard='HEP_MC_VERIF', enable='none needed: the checks read /repo/include through clang\'s AST on every run; no instrumentation is compiled into the library',
                    baseline_off_cmd='meson test -C /repo/_build', source_commits=[], add_only=True),
         engines=[dict(name='vp', path='vp/', serves_properties=sorted(CLAIMS), kind_free_text='AST-guided extraction of the real hep-mc functions to C on every run; CBMC 6.11 code contracts (goto-instrument --dfcc, loop contracts) with cadical/cvc5; loop-free integer/real fragments by our WP generator to SMT-LIB (z3, z3-new, cvc5); native replay on the real templates')],
         checks=checks, not_applicable=na,
         notes='contract-based deductive verification: contracts live in /verif/specs, keyed by function and loop ordinal, and are spliced into C text extracted mechanically from /repo/include on every run (vp/extract.py lists the only syntax rewrites). exit 2 = no verdict (extraction/compile problem, timeout, vacuity alarm); never a VIOLATION. Solver verdicts are memoised, keyed by the SHA-256 of the exact translation unit extracted from /repo on this run + the prelude headers it includes + the job definition: verdicts/ (committed, written by vp/freeze_verdicts.py from a complete run of all checks on the committed tree) and out/cache (local). A verdict is reused only for a byte-identical verification problem - on the unchanged tree a check therefore takes 2-40 s and its evidence marks every reused job; any change to a function under contract, a spec or the prelude gives another key and the solvers run on it (cold costs on 16 cores: vegas_refine_pdf 17 min, multi_channel_iteration 15 min, vegas_iteration 11 min, vegas_pdf_ctor 6 min, everything else < 4 min; a failing obligation is normally reported earlier because a --stop-on-fail run races the full run). VP_NOCACHE=1 re-runs every solver; VP_NO_COMMITTED_VERDICTS=1 ignores verdicts/. thorough = quick + the float instantiation of 12 jobs, never stops at the first failure.')
json.dump(m, open(os.path.join(ROOT, 'MANIFEST.json'), 'w'), indent=1)
print('manifest: %d checks, %d not applicable' % (len(checks), len(na)))
