#!/usr/bin/env python3
"""Native side: replay of counterexamples on the REAL C++ templates, and conformance of the
extracted C text against the real templates (DESIGN.md 3.5, 3.6)."""
import os, subprocess, json, time, hashlib

HERE = os.path.dirname(os.path.abspath(__file__))
ROOT = os.path.dirname(HERE)
OUT = os.environ.get('VP_OUT') or os.path.join(ROOT, 'out')
REPO_INC = os.environ.get('VP_REPO_INC', '/repo/include')

REPLAY_OF_JOB = {}   # job name -> replay harness base name (filled by recipes)


def find_replay(job):
    from recipes import REPLAYS
    r = REPLAYS.get(job)
    if r is None:
        # job names may carry a suffix (_float, _shrink)
        for k, v in REPLAYS.items():
            if job.startswith(k):
                r = v
                break
    if r is None:
        return None
    if isinstance(r, str):
        r = dict(cpp=r)
    p = os.path.join(ROOT, 'replay', r['cpp'] + '.cpp')
    if not os.path.exists(p):
        return None
    r = dict(r)
    r['path'] = p
    return r


def _compile(rep, real='double'):
    """g++ on the replay harness (REAL templates from /repo/include); extracted fragments that live inside
    MPI drivers are linked in as natively compiled C text (they cannot be called without an MPI runtime)."""
    import build as BLD
    cpp = rep['path']
    os.makedirs(os.path.join(OUT, 'bin'), exist_ok=True)
    exe = os.path.join(OUT, 'bin', os.path.basename(cpp)[:-4] + '_' + real)
    objs = []
    if rep.get('link_fragments') or rep.get('link_functions'):
        parts = ['#include "vp.h"', 'int vp_thrown; size_t vp_gk, vp_gj, vp_gm;']
        for fn in rep.get('link_functions', []):
            parts.append(BLD.emit_function(fn, {})['text'])
        frees = []
        for fr in rep.get('link_fragments', []):
            e = BLD.emit_fragment(fr)
            parts.append(e['native_text'])
            frees += e['free']
        parts.append('#include <string.h>\nint vp_set_free(const char *name, unsigned long long v)\n{')
        for (t, nme, _) in frees:
            parts.append('  if (strcmp(name, "%s") == 0) { %s = (%s)v; return 1; }' % (nme, nme, t))
        parts.append('  return 0;\n}')
        cfile = os.path.join(OUT, os.path.basename(cpp)[:-4] + '_frag.c')
        open(cfile, 'w').write('\n'.join(parts))
        obj = cfile[:-2] + '.o'
        cmd = ['gcc', '-std=gnu11', '-O0', '-c', '-DVP_NATIVE', '-DVP_REAL=' + real, '-I' + os.path.join(HERE, 'prelude'), cfile, '-o', obj]
        p = subprocess.run(cmd, stdout=subprocess.PIPE, stderr=subprocess.STDOUT, text=True)
        if p.returncode != 0:
            return None, p.stdout[-3000:]
        objs.append(obj)
    cmd = ['g++', '-std=c++11', '-O0', '-g', '-I' + REPO_INC, '-I' + os.path.join(ROOT, 'replay'), '-DVP_REAL=' + real, cpp] + objs + ['-o', exe]
    p = subprocess.run(cmd, stdout=subprocess.PIPE, stderr=subprocess.STDOUT, text=True)
    if p.returncode != 0:
        return None, p.stdout[-3000:]
    return exe, ''


def run_replay(cpp, rec, log):
    """returns (reproduced?, output).  The harness exits 1 when the real code violates the
    property-level predicate on the given inputs, 0 when it does not, other = harness problem."""
    real = rec.get('real') or 'double'
    if real not in ('float', 'double'):
        real = 'double'
    exe, err = _compile(cpp, real)
    if exe is None:
        return None, 'replay harness does not compile:\n' + err
    path = os.path.join(OUT, 'replay', '_input_%s.json' % hashlib.md5(json.dumps(rec.get('inputs', {}), sort_keys=True).encode()).hexdigest()[:10])
    os.makedirs(os.path.dirname(path), exist_ok=True)
    json.dump(dict(inputs=rec.get('inputs', {}), obligation=rec.get('obligation')), open(path, 'w'))
    flat = os.path.join(OUT, 'replay', os.path.basename(path)[:-5] + '.txt')
    with open(flat, 'w') as f:
        f.write('obligation %s\n' % (rec.get('obligation') or '-'))
        for k, v in sorted((rec.get('inputs') or {}).items()):
            if isinstance(v, dict) and not k.startswith('_'):
                f.write('%s %s %s\n' % (k.replace(' ', ''), v.get('binary') or '-', str(v.get('data')).replace(' ', '')))
    try:
        p = subprocess.run([exe, flat], stdout=subprocess.PIPE, stderr=subprocess.STDOUT, text=True, timeout=120)
    except subprocess.TimeoutExpired:
        return None, 'replay timed out'
    if p.returncode == 1:
        return True, p.stdout
    if p.returncode == 0:
        return False, p.stdout
    return None, 'replay harness exit %d\n%s' % (p.returncode, p.stdout)


def run_job(job, tier, seed):
    """conformance: extracted C compiled natively vs the real template, bit for bit"""
    import build as BLD
    import extract as X
    t0 = time.time()
    res = dict(job=job['name'], status='error', obligations=[], notes=[], cmds=[], secs=0, cases=0)
    try:
        cfile, meta = BLD.build_tu(dict(name=job['name'] + '_native', functions=job['functions'], specs=[], harness_sections=[], preludes=job.get('preludes', [])))
    except X.ExtractError as e:
        res['status'] = 'extract-error'
        res['notes'].append(str(e))
        return res
    os.makedirs(os.path.join(OUT, 'bin'), exist_ok=True)
    real = job.get('real', 'double')
    obj = os.path.join(OUT, 'bin', job['name'] + '_c.o')
    cmd = ['gcc', '-std=gnu11', '-O0', '-c', '-DVP_NATIVE', '-DVP_REAL=' + real, '-I' + os.path.join(HERE, 'prelude'), '-I' + ROOT, cfile, '-o', obj]
    p = subprocess.run(cmd, stdout=subprocess.PIPE, stderr=subprocess.STDOUT, text=True)
    res['cmds'].append(' '.join(cmd))
    if p.returncode != 0:
        res['status'] = 'compile-error'
        res['notes'].append(p.stdout[-2000:])
        return res
    drv = os.path.join(ROOT, 'replay', job['driver'])
    exe = os.path.join(OUT, 'bin', job['name'] + '_conf')
    cmd = ['g++', '-std=c++11', '-O0', '-I' + REPO_INC, '-I' + os.path.join(HERE, 'prelude'), '-DVP_NATIVE', '-DVP_REAL=' + real, drv, obj, '-o', exe, '-lm']
    p = subprocess.run(cmd, stdout=subprocess.PIPE, stderr=subprocess.STDOUT, text=True)
    res['cmds'].append(' '.join(cmd))
    if p.returncode != 0:
        res['status'] = 'compile-error'
        res['notes'].append(p.stdout[-2000:])
        return res
    n = 1000 if tier == 'quick' else 100000
    p = subprocess.run([exe, str(seed), str(n)], stdout=subprocess.PIPE, stderr=subprocess.STDOUT, text=True)
    res['cmds'].append('%s %d %d' % (exe, seed, n))
    last = p.stdout.strip().split('\n')[-1] if p.stdout.strip() else ''
    try:
        res['cases'] = int(last.split()[-1])
    except Exception:
        res['cases'] = 0
    if p.returncode != 0:
        res['status'] = 'conformance-mismatch'
        res['notes'].append(p.stdout[-1500:])
    else:
        res['status'] = 'ok'
    res['secs'] = time.time() - t0
    return res
