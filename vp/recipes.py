"""Which functions are extracted (RECIPES) and which verification jobs exist (JOBS)."""

RECIPES = {
    'accumulate': dict(name='accumulate'),
    'multi_channel_refine_weights': dict(name='multi_channel_refine_weights', must_fire={'G8': 2, 'G11': 1}),
    'vegas_icdf': dict(name='vegas_icdf'),
    'vegas_refine_pdf': dict(name='vegas_refine_pdf'),
    'vegas_pdf_ctor2': dict(name='vegas_pdf', cls='vegas_pdf', sel='(std::size_t, std::size_t)', self='vegas_pdf', ctor=True),
    'vegas_pdf_bin_left': dict(name='bin_left', cls='vegas_pdf', self='vegas_pdf'),
    'vegas_pdf_set_bin_left': dict(name='set_bin_left', cls='vegas_pdf', self='vegas_pdf'),
    'vegas_pdf_bins': dict(name='bins', cls='vegas_pdf', self='vegas_pdf'),
    'vegas_pdf_dimensions': dict(name='dimensions', cls='vegas_pdf', self='vegas_pdf'),
}

JOBS = [
    dict(name='refine_weights', functions=['multi_channel_refine_weights'], entry='h_multi_channel_refine_weights',
         enforce='multi_channel_refine_weights', replace=['vp_pow'], real='double', defines=['VP_NMAX=4096'],
         props=['C08']),
]

RECIPES.update({
    'discard_before': dict(name='discard_before'),
    'discard_after': dict(name='discard_after'),
})

_SUBP = [('size_t', 'calls'), ('int', 'rank'), ('int', 'world')]
_DISP = [('size_t', 'calls'), ('int', 'rank'), ('int', 'world'), ('size_t', 'usage')]
_DIS2 = [('size_t', 'calls'), ('int', 'rank'), ('int', 'world'), ('size_t', 'usage'), ('size_t', 'sub_calls')]
FRAGMENTS = {}
for _d in ('mpi_plain', 'mpi_vegas', 'mpi_multi_channel'):
    FRAGMENTS[_d + '_sub_calls'] = dict(unit='mpi', fn=_d, var='sub_calls', params=_SUBP, ret='size_t')
    FRAGMENTS[_d + '_discard1'] = dict(unit='mpi', fn=_d, call=('discard', 0, 0), count=2, params=_DISP, ret='size_t')
    FRAGMENTS[_d + '_discard2'] = dict(unit='mpi', fn=_d, call=('discard', 1, 0), count=2, params=_DIS2, ret='size_t')

B2JOBS = [
    dict(name='c16_tiling', mode='int', functions=['discard_before', 'discard_after'],
         fragments=[f for f in sorted(FRAGMENTS)], property_file='specs/C16.smt2', props=['C16', 'C04'],
         assumptions=['world size and rank are non-negative int values with rank < world (MPI_Comm_rank/MPI_Comm_size contract)']),
]
NATIVEJOBS = []
REPLAYS = {'c16_tiling': dict(cpp='c16', link_fragments=sorted(FRAGMENTS))}
PROPS = ['C%02d' % i for i in range(1, 21)]
