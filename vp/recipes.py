"""Which functions are extracted (RECIPES) and which verification jobs exist (JOBS)."""

RECIPES = {
    'accumulate': dict(name='accumulate'),
    'multi_channel_refine_weights': dict(name='multi_channel_refine_weights', must_fire={'G8': 2, 'G11': 1}),
    'vegas_icdf': dict(name='vegas_icdf'),
    'vegas_refine_pdf': dict(name='vegas_refine_pdf'),
    'vegas_pdf_ctor2': dict(name='vegas_pdf', cls='vegas_pdf', sel='(std::size_t, std::size_t)', self='vegas_pdf', ctor=True),
    'vegas_pdf_bin_left': dict(name='bin_left', cls='vegas_pdf', self='vegas_pdf'),
    'vegas_pdf_set_bin_left': dict(name='set_bin_left', cls='vegas_pdf', self='vegas_pdf'),
    'vegas_pdf_bins': dict(name='bins', cls='vegas_pdf', self='vegas_pdf'),
    'vegas_pdf_dimensions': dict(name='dimensions', cls='vegas_pdf', self='vegas_pdf'),
}

JOBS = [
    dict(name='refine_weights', functions=['multi_channel_refine_weights'], entry='h_multi_channel_refine_weights',
         enforce='multi_channel_refine_weights', replace=['vp_pow'], real='double', defines=['VP_NMAX=4096'],
         props=['C08']),
]
