"""Which functions are extracted (RECIPES / FRAGMENTS) and which verification jobs exist."""

PROPS = ['C%02d' % i for i in range(1, 21)]


# ---- handlers for collaborator idioms (G14) ---------------------------------------------
def _h_map_call(em, n, args, dst):
    # integrand.map()(channel, rn, coords, enabled, densities, action) / map_(...) -> vp_map_call(...)
    al = [em.arg(a, None) for a in args[1:]]
    return 'vp_map_call(%s)' % ', '.join(al)


def _h_selector_call(em, n, args, dst):
    return 'discrete_distribution_call(%s, %s)' % (em.arg(args[0], None), em.arg(args[1], None))


def _h_make_accumulator(em, n, args, dst):
    # make_accumulator(integrand) == accumulator<T, I::has_distributions>(integrand.parameters())  (accumulator.hpp:316-324)
    rti = em.tm.info(n['type']['qualType'])
    return '%s_ctor1(%s, integrand_parameters((const struct integrand *)%s))' % (rti['ctype'], dst, em.arg(args[0], None))


def _h_callback_call(em, n, args, dst):
    # callback(chkpt) -> vp_callback_call(&chkpt): user code (or hep::callback), returns any bool
    return 'vp_callback_call(%s)' % em.arg(args[1], None)


def _h_integrand_call(em, n, args, dst):
    # integrand.function()(point[, projector])  ->  vp_integrand_call(&point[, &projector])
    al = [em.arg(a, None) for a in args[1:]]
    return 'vp_integrand_call%s(%s)' % ('_proj' if len(al) == 2 else '', ', '.join(al))


_ACC_OPTS = dict(operator_calls={('vpinst_Fn', 'operator()'): _h_integrand_call, ('vpinst_Map', 'operator()'): _h_map_call,
                                  ('discrete_distribution', 'operator()'): _h_selector_call})

# obligations named for property X also count for the properties whose statement is composed of X (see vp/check.py);
# an entry is a property id (all its obligations) or one full obligation name
def composed(pid, name):
    pre = name.split('.')[0]
    return pre == pid or any(e == pre or e == name for e in COMPOSED_OF.get(pid, ()))


COMPOSED_OF = {
    'C03': ('C05', 'C19', 'C04.mpi_stored'),                                   # lossless text + next state is a function of stored data
    'C04': ('C16', 'C10', 'C20.mpi_root_mode', 'C20.mpi_silent_nonroot'),
    'C16': ('C04.mpi_collective_comm',),
    # C01: the weight formulas (C07.weight/index/left, C17.lazy_memo_value = the memoised weight IS jacobian/sum), the accumulated value is f*w,
    # the channel is drawn with the cumulative-sum distribution
    'C01': ('C02.ret_fw', 'C02.acc_once', 'C02.ret_nonzero_weight', 'C07', 'C17.lazy_memo_value', 'C17.lazy_memo', 'C09'),
    'C07': ('C17.unit', 'C01.vegas_point', 'C19'),           # point inside the reported bin; the next grid is refine(last result) also in MPI
    'C20': ('C12.target', 'C12.notarget', 'C12.combine_all'),  # the decision that must be mode-independent
    'C12': ('C13',),                                         # the stop decision is taken on the combined result
    'C17': ('C07', 'C01', 'C09', 'C02.weight_once', 'C02.weight_lazy', 'C02.once'),
    'C19': ('C05',),                                         # resumed-from-text runs
    # "resumes identically": after rollback(k) the grid / weights handed out are those derived from the last REMAINING result (or the first state)
    'C15': ('C19.first_vegas', 'C19.first_vegas_grid', 'C19.next_vegas', 'C19.first_mc', 'C19.first_mc_weights', 'C19.next_mc'),
}


def X_qtype(n):
    import extract as _X
    return _X.qtype(n)


RECIPES = {
    'accumulate': dict(name='accumulate'),
    'multi_channel_refine_weights': dict(name='multi_channel_refine_weights', must_fire={'G8': 2, 'G11': 1}),
    'vegas_icdf': dict(name='vegas_icdf'),
    'vegas_refine_pdf': dict(name='vegas_refine_pdf', opts=dict(rename={'vegas_pdf_ctor2': 'vp_new_grid_uniform', 'vp_vegas_pdf_copy': 'vp_new_grid_copy'},
                                                           member_calls={('vec_T', 'assign'): (lambda em, n, obj, args, dst: 'vp_load_data(&(%s), &(%s), %s, %s, bins, i)' % (obj, em.iter_parts(args[0])[0], em.iter_parts(args[0])[1], em.iter_parts(args[1])[1]))})),
    'vegas_pdf_ctor2': dict(name='vegas_pdf', cls='vegas_pdf', sel='(std::size_t, std::size_t)', self='vegas_pdf', ctor=True),
    'vegas_pdf_bin_left': dict(name='bin_left', cls='vegas_pdf', self='vegas_pdf'),
    'vegas_pdf_set_bin_left': dict(name='set_bin_left', cls='vegas_pdf', self='vegas_pdf'),
    'vegas_pdf_bins': dict(name='bins', cls='vegas_pdf', self='vegas_pdf'),
    'vegas_pdf_dimensions': dict(name='dimensions', cls='vegas_pdf', self='vegas_pdf'),
    'discard_before': dict(name='discard_before'),
    'discard_after': dict(name='discard_after'),
    'accumulator_nodist_invoke': dict(name='invoke', cls='accumulator', cls_targs=['double', '0'], self='accumulator_nodist', opts=_ACC_OPTS),
    'accumulator_nodist_result': dict(name='result', cls='accumulator', cls_targs=['double', '0'], self='accumulator_nodist'),
    'accumulator_dist_invoke': dict(name='invoke', cls='accumulator', cls_targs=['double', '1'], self='accumulator_dist', opts=_ACC_OPTS),
    'accumulator_dist_result': dict(name='result', cls='accumulator', cls_targs=['double', '1'], self='accumulator_dist'),
    'accumulator_dist_ctor1': dict(name='accumulator', cls='accumulator', cls_targs=['double', '1'], self='accumulator_dist', ctor=True),
    # unsigned wrap allowed: the per-bin call counters are incremented without a bound (defined arithmetic); indices stay guarded by the at() obligations
    'accumulator_dist_add_to_1d_distribution': dict(name='add_to_1d_distribution', cls='accumulator', self='accumulator_dist', allow_unsigned_wrap=True),
    'accumulator_dist_add_to_2d_distribution': dict(name='add_to_2d_distribution', cls='accumulator', self='accumulator_dist', allow_unsigned_wrap=True),
    'projector_ctor2': dict(name='projector', cls='projector', self='projector', ctor=True, sel='accumulator'),
    'projector_add3': dict(name='add', cls='projector', self='projector', sel='(std::size_t, double, double)'),
    'projector_add4': dict(name='add', cls='projector', self='projector', sel='(std::size_t, double, double, double)'),
    'mc_result_value': dict(name='value', cls='mc_result', self='mc_result'),
    'mc_result_variance': dict(name='variance', cls='mc_result', self='mc_result', allow_unsigned_wrap=True),
    'mc_result_error': dict(name='error', cls='mc_result', self='mc_result'),
    # same function, sqrt emitted as the deterministic stub of stubs_cbfull.h (the callback job evaluates error() twice: code and ghost)
    'mc_result_error_det': dict(name='error', cls='mc_result', self='mc_result', opts=dict(rename={'vp_sqrt': 'vp_sqrt_det'})),
    'mc_result_ctor5': dict(name='mc_result', cls='mc_result', self='mc_result', ctor=True, sel='(std::size_t, std::size_t, std::size_t, double, double)'),
    # T(calls - 1) wraps for calls == 0 (empty combination / N < 2): defined unsigned arithmetic, result multiplied by error^2
    'create_result': dict(name='create_result', allow_unsigned_wrap=True),
}

_CAST_INVOKE = {'accumulator_nodist_invoke': {1: 'struct integrand *', 2: 'const struct mc_point *'}}
_IT_OPTS = dict(_ACC_OPTS, cast_args=_CAST_INVOKE, free_calls={'make_accumulator': _h_make_accumulator})
RECIPES.update({
    'accumulator_nodist_ctor1': dict(name='accumulator', cls='accumulator', cls_targs=['double', '0'], self='accumulator_nodist', ctor=True),
    'integrand_dimensions': dict(unit='drivers', name='dimensions', cls='integrand', self='integrand'),
    'integrand_parameters': dict(unit='drivers', name='parameters', cls='integrand', self='integrand'),
    'mc_point_ctor1': dict(name='mc_point', cls='mc_point', self='mc_point', ctor=True, sel='std::vector', opts=dict(default_args=1)),
    'mc_point_ctor2': dict(name='mc_point', cls='mc_point', self='mc_point', ctor=True, sel='std::vector'),
    'plain_result_ctor6': dict(name='plain_result', cls='plain_result', self='plain_result', ctor=True, sel='std::size_t, std::size_t, std::size_t'),
    'vegas_point_ctor3': dict(unit='drivers', name='vegas_point', cls='vegas_point', self='vegas_point', ctor=True, sel='vegas_pdf'),
    'vegas_point_bin': dict(unit='drivers', name='bin', cls='vegas_point', self='vegas_point'),
    'vegas_result_ctor3': dict(unit='drivers', name='vegas_result', cls='vegas_result', self='vegas_result', ctor=True, sel='plain_result'),
    'discrete_distribution_ctor2': dict(unit='drivers', name='discrete_distribution', cls='discrete_distribution', self='discrete_distribution', ctor=True, sel='__normal_iterator'),
    'discrete_distribution_call': dict(unit='drivers', name='operator()', cls='discrete_distribution', self='discrete_distribution'),
    'multi_channel_point2_ctor7': dict(unit='drivers', name='multi_channel_point2', cls='multi_channel_point2', self='multi_channel_point2', ctor=True, sel='std::size_t'),
    'multi_channel_point2_weight': dict(unit='drivers', name='weight', cls='multi_channel_point2', self='multi_channel_point2', opts=dict(_ACC_OPTS, mutable_self=True)),
    'multi_channel_point_ctor4': dict(unit='drivers', name='multi_channel_point', cls='multi_channel_point', self='multi_channel_point', ctor=True, sel='std::size_t'),
    'multi_channel_point_channel': dict(unit='drivers', name='channel', cls='multi_channel_point', self='multi_channel_point'),
    'multi_channel_point_coordinates': dict(unit='drivers', name='coordinates', cls='multi_channel_point', self='multi_channel_point'),
    'mc_point_point': dict(unit='drivers', name='point', cls='mc_point', self='mc_point'),
    'accumulator_nodist_invoke_mc': dict(unit='drivers', name='invoke', cls='accumulator', cls_targs=['double', '0'], sel='multi_channel_point2', self='accumulator_nodist', opts=_ACC_OPTS),
    'multi_channel_integrand_map_dimensions': dict(unit='drivers', name='map_dimensions', cls='multi_channel_integrand', self='multi_channel_integrand'),
    'multi_channel_integrand_map': dict(unit='drivers', name='map', cls='multi_channel_integrand', self='multi_channel_integrand'),
    'multi_channel_result_ctor3': dict(unit='drivers', name='multi_channel_result', cls='multi_channel_result', self='multi_channel_result', ctor=True, sel='plain_result'),
    'plain_iteration': dict(unit='drivers', name='plain_iteration', opts=_IT_OPTS),
    'vegas_iteration': dict(unit='drivers', name='vegas_iteration', opts=_IT_OPTS),
    'multi_channel_iteration': dict(unit='drivers', name='multi_channel_iteration', opts=dict(_ACC_OPTS, free_calls={'make_accumulator': _h_make_accumulator}, rename={'accumulator_nodist_invoke': 'accumulator_nodist_invoke_mc'})),
})

RECIPES.update({
    'chkpt_plain_result_rollback': dict(unit='chkpt', name='rollback', cls='chkpt', cls_targs_has='plain_result', self='chkpt_plain_result'),
    'rng_chkpt_plain_result_rollback': dict(unit='chkpt', name='rollback', cls='chkpt_with_rng', cls_targs_has='plain_result', self='rng_chkpt_plain_result', opts=dict(throws=['chkpt_plain_result_rollback'])),
    'rng_chkpt_plain_result_add': dict(unit='chkpt', name='add', cls='chkpt_with_rng', cls_targs_has='plain_result', self='rng_chkpt_plain_result'),
    'rng_chkpt_plain_result_generator': dict(unit='chkpt', name='generator', cls='chkpt_with_rng', cls_targs_has='plain_result', self='rng_chkpt_plain_result'),
    'chkpt_plain_result_results': dict(unit='chkpt', name='results', cls='chkpt', cls_targs_has='plain_result', self='chkpt_plain_result'),
})

RECIPES.update({
    'vegas_chkpt_pdf': dict(unit='chkpt', name='pdf', cls='vegas_chkpt', self='vegas_chkpt'),
    'vegas_chkpt_dimensions': dict(unit='chkpt', name='dimensions', cls='vegas_chkpt', self='vegas_chkpt'),
    'multi_channel_chkpt_channel_weights': dict(unit='chkpt', name='channel_weights', cls='multi_channel_chkpt', self='multi_channel_chkpt'),
    'multi_channel_chkpt_channels': dict(unit='chkpt', name='channels', cls='multi_channel_chkpt', self='multi_channel_chkpt'),
    'multi_channel_chkpt_ctor3': dict(unit='chkpt', name='multi_channel_chkpt', cls='multi_channel_chkpt', self='multi_channel_chkpt', ctor=True, sel='std::vector'),
})

RECIPES.update({
    'chkpt_vegas_result_results': dict(unit='chkpt', name='results', cls='chkpt', cls_targs_has='vegas_result', self='chkpt_vegas_result'),
    'chkpt_multi_channel_result_results': dict(unit='chkpt', name='results', cls='chkpt', cls_targs_has='multi_channel_result', self='chkpt_multi_channel_result'),
    'vegas_result_pdf': dict(unit='chkpt', name='pdf', cls='vegas_result', self='vegas_result'),
    'vegas_result_adjustment_data': dict(unit='chkpt', name='adjustment_data', cls='vegas_result', self='vegas_result'),
    'multi_channel_result_channel_weights': dict(unit='chkpt', name='channel_weights', cls='multi_channel_result', self='multi_channel_result'),
    'multi_channel_result_adjustment_data': dict(unit='chkpt', name='adjustment_data', cls='multi_channel_result', self='multi_channel_result'),
})

RECIPES.update({
    'weighted_with_variance_call': dict(unit='chkpt', name='operator()', cls='weighted_with_variance', cls_targs_has='hep::mc_result', self='weighted_with_variance', opts=dict(iter_vec='vec_mc_result')),
    'weighted_equally_call': dict(unit='chkpt', name='operator()', cls='weighted_equally', cls_targs_has='hep::mc_result', self='weighted_equally', opts=dict(iter_vec='vec_mc_result')),
    'hep_distribution_accumulator': dict(unit='chkpt', name='hep_distribution_accumulator', opts=dict(iter_vec='vec_plain_result',
        operator_calls={('weighted_with_variance', 'operator()'): (lambda em, n, args, dst: '%s(%s, &(%s), %s, %s)' % (
            'vp_combine_results' if 'plain_result' in X_qtype(args[1]) else 'vp_combine_bins', dst, em.iter_parts(args[1])[0], em.iter_parts(args[1])[1], em.iter_parts(args[2])[1]))})),
    'distribution_result_ctor2': dict(name='distribution_result', cls='distribution_result', self='distribution_result', ctor=True, sel='distribution_parameters'),
    'plain_result_distributions': dict(name='distributions', cls='plain_result', self='plain_result'),
    'distribution_result_results': dict(name='results', cls='distribution_result', self='distribution_result'),
    'mc_result_sum': dict(name='sum', cls='mc_result', self='mc_result'),
    'mc_result_sum_of_squares': dict(name='sum_of_squares', cls='mc_result', self='mc_result'),
    'multi_channel_summary': dict(unit='chkpt', name='multi_channel_summary', opts=dict(inline_lambdas=True)),
    'multi_channel_weight_info_channels': dict(unit='chkpt', name='channels', cls='multi_channel_weight_info', self='multi_channel_weight_info'),
    'multi_channel_weight_info_weights': dict(unit='chkpt', name='weights', cls='multi_channel_weight_info', self='multi_channel_weight_info'),
    'multi_channel_weight_info_calls': dict(unit='chkpt', name='calls', cls='multi_channel_weight_info', self='multi_channel_weight_info'),
    'multi_channel_weight_info_minimal_weight_count': dict(unit='chkpt', name='minimal_weight_count', cls='multi_channel_weight_info', self='multi_channel_weight_info'),
    'multi_channel_max_difference': dict(unit='chkpt', name='multi_channel_max_difference'),
    'allreduce_result': dict(unit='mpidrv', name='allreduce_result', opts=dict(free_calls={
        'MPI_Allreduce': (lambda em, n, args, dst: 'vp_mpi_allreduce(%s, %s)' % (em.emit(args[1]), em.emit(args[2])))})),
    'chi_square_dof': dict(unit='chkpt', name='chi_square_dof', allow_unsigned_wrap=True, opts=dict(iter_vec='vec_plain_result',
        operator_calls={('weighted_with_variance', 'operator()'): (lambda em, n, args, dst: 'vp_combine_mc(%s, &(%s), %s, %s)' % (dst, em.iter_parts(args[1])[0], em.iter_parts(args[1])[1], em.iter_parts(args[2])[1]))})),
    'mc_result_calls': dict(name='calls', cls='mc_result', self='mc_result'),
    'mc_result_non_zero_calls': dict(name='non_zero_calls', cls='mc_result', self='mc_result'),
    'mc_result_finite_calls': dict(name='finite_calls', cls='mc_result', self='mc_result'),
})

RECIPES.update({
    'distribution_parameters_x_min': dict(name='x_min', cls='distribution_parameters', self='distribution_parameters'),
    'distribution_parameters_y_min': dict(name='y_min', cls='distribution_parameters', self='distribution_parameters'),
    'distribution_parameters_bin_size_x': dict(name='bin_size_x', cls='distribution_parameters', self='distribution_parameters'),
    'distribution_parameters_bin_size_y': dict(name='bin_size_y', cls='distribution_parameters', self='distribution_parameters'),
    'distribution_parameters_bins_x': dict(name='bins_x', cls='distribution_parameters', self='distribution_parameters'),
    'distribution_parameters_bins_y': dict(name='bins_y', cls='distribution_parameters', self='distribution_parameters'),
})

_DRV_OPTS = dict(operator_calls={('vpinst_PCb', 'operator()'): _h_callback_call, ('vpinst_VCb', 'operator()'): _h_callback_call, ('vpinst_MCb', 'operator()'): _h_callback_call})
RECIPES.update({
    'plain': dict(unit='drivers', name='plain', sel='vpinst::PCb', opts=dict(_DRV_OPTS, rename={'vp_rng_chkpt_plain_result_copy': 'vp_chk_copy_abs'})),
    'vegas': dict(unit='drivers', name='vegas', sel='vpinst::VCb', opts=dict(_DRV_OPTS, rename={'vp_rng_vegas_chkpt_copy': 'vp_chk2_copy_abs'})),
    'multi_channel': dict(unit='drivers', name='multi_channel', sel='vpinst::MCb', opts=dict(_DRV_OPTS, rename={'vp_rng_multi_channel_chkpt_copy': 'vp_chk2_copy_abs'})),
})

RECIPES.update({
    'vegas_chkpt_alpha': dict(unit='chkpt', name='alpha', cls='vegas_chkpt', self='vegas_chkpt'),
    'multi_channel_chkpt_beta': dict(unit='chkpt', name='beta', cls='multi_channel_chkpt', self='multi_channel_chkpt'),
    'multi_channel_chkpt_min_weight': dict(unit='chkpt', name='min_weight', cls='multi_channel_chkpt', self='multi_channel_chkpt'),
    'mpi_plain': dict(unit='mpidrv', name='mpi_plain', sel='vpinst::PCb', allow_unsigned_wrap=True, opts=dict(_DRV_OPTS, rename={'vp_rng_chkpt_plain_result_copy': 'vp_chk_copy_abs'},
        operator_calls={('vpinst_PCb', 'operator()'): (lambda em, n, args, dst: 'vp_callback_call(%s)' % em.arg(args[2], None))}, free_calls={
        'MPI_Comm_rank': (lambda em, n, args, dst: 'vp_mpi_comm_rank(%s, %s)' % (em.emit(args[0]), em.emit(args[1]))),
        'MPI_Comm_size': (lambda em, n, args, dst: 'vp_mpi_comm_size(%s, %s)' % (em.emit(args[0]), em.emit(args[1])))})),
    'mpi_multi_channel': dict(unit='mpidrv', name='mpi_multi_channel', sel='vpinst::MCb', allow_unsigned_wrap=True, opts=dict(_DRV_OPTS, rename={'vp_rng_multi_channel_chkpt_copy': 'vp_chk2_copy_abs'},
        operator_calls={('vpinst_MCb', 'operator()'): (lambda em, n, args, dst: 'vp_callback_call(%s)' % em.arg(args[2], None))}, free_calls={
        'MPI_Comm_rank': (lambda em, n, args, dst: 'vp_mpi_comm_rank(%s, %s)' % (em.emit(args[0]), em.emit(args[1]))),
        'MPI_Comm_size': (lambda em, n, args, dst: 'vp_mpi_comm_size(%s, %s)' % (em.emit(args[0]), em.emit(args[1])))})),
    # unsigned wrap allowed in the driver: the positioning arithmetic usage * discard_before(...) is the subject of job c16_tiling (proved wrap-free there)
    'mpi_vegas': dict(unit='mpidrv', name='mpi_vegas', sel='vpinst::VCb', allow_unsigned_wrap=True, opts=dict(_DRV_OPTS, rename={'vp_rng_vegas_chkpt_copy': 'vp_chk2_copy_abs'},
        operator_calls={('vpinst_VCb', 'operator()'): (lambda em, n, args, dst: 'vp_callback_call(%s)' % em.arg(args[2], None))}, free_calls={
        'MPI_Comm_rank': (lambda em, n, args, dst: 'vp_mpi_comm_rank(%s, %s)' % (em.emit(args[0]), em.emit(args[1]))),
        'MPI_Comm_size': (lambda em, n, args, dst: 'vp_mpi_comm_size(%s, %s)' % (em.emit(args[0]), em.emit(args[1])))})),
})
RECIPES.update({
    'rng_vegas_chkpt_add': dict(unit='chkpt', name='add', cls='chkpt_with_rng', cls_targs_has='vegas_chkpt', self='rng_vegas_chkpt'),
    'rng_vegas_chkpt_generator': dict(unit='chkpt', name='generator', cls='chkpt_with_rng', cls_targs_has='vegas_chkpt', self='rng_vegas_chkpt'),
    'rng_multi_channel_chkpt_add': dict(unit='chkpt', name='add', cls='chkpt_with_rng', cls_targs_has='multi_channel_chkpt', self='rng_multi_channel_chkpt'),
    'rng_multi_channel_chkpt_generator': dict(unit='chkpt', name='generator', cls='chkpt_with_rng', cls_targs_has='multi_channel_chkpt', self='rng_multi_channel_chkpt'),
    'multi_channel_integrand_channels': dict(unit='drivers', name='channels', cls='multi_channel_integrand', self='multi_channel_integrand'),
})

RECIPES.update({
    'mid_points_x': dict(name='mid_points_x'),
    'mid_points_y': dict(name='mid_points_y'),
    'distribution_result_parameters': dict(name='parameters', cls='distribution_result', self='distribution_result'),
})

def _h_mpi_rank(em, n, args, dst):
    return 'vp_mpi_comm_rank(%s, %s)' % (em.emit(args[0]), em.emit(args[1]))


def _h_inner_callback(em, n, args, dst):
    return 'vp_inner_callback_call(%s, %s)' % (em.arg(args[0], None), em.arg(args[1], None))


RECIPES.update({
    'mpi_callback_call': dict(unit='mpi', name='operator()', cls='mpi_callback', self='mpi_callback',
                              opts=dict(byval_copy=True, free_calls={'MPI_Comm_rank': _h_mpi_rank}, operator_calls={('callback', 'operator()'): _h_inner_callback},
                                        member_calls={('callback', 'mode'): (lambda em, n, obj, args, dst: ('vp_callback_set_mode(&(%s), %s)' % (obj, em.emit(args[0]))) if args else ('vp_callback_get_mode(&(%s))' % obj))})),
})

def _h_combine(em, n, args, dst):
    # hep::accumulate<Accumulator>(begin, end) over results  ->  vp_combine_call(dst, &vec, lo, hi)
    va, ia = em.iter_parts(args[0]); vb, ib = em.iter_parts(args[1])
    return 'vp_combine_call(%s, &(%s), %s, %s)' % (dst, va, ia, ib)


def _h_chi(em, n, args, dst):
    va, ia = em.iter_parts(args[0]); vb, ib = em.iter_parts(args[1])
    return 'vp_chi_square_call(&(%s), %s, %s)' % (va, ia, ib)


RECIPES.update({
    # unsigned wrap allowed: nnf = non_zero_calls - finite_calls is only printed
    'callback_call': dict(unit='chkpt', name='operator()', cls='callback', self='callback', allow_unsigned_wrap=True,
                          opts=dict(byval_copy=True, free_calls={'accumulate': _h_combine, 'chi_square_dof': _h_chi},
                                    member_calls={('*', 'serialize'): (lambda em, n, obj, args, dst: 'vp_chkpt_serialize_call(&(%s), &(%s))' % (obj, em.emit(args[0])))},
                                    rename={'vp_ofstream_ctor1': 'vp_ofstream_open', 'mc_result_error': 'mc_result_error_det'})),
})

_ST_OPTS = dict(streams=True)
RECIPES.update({
    'mc_result_serialize': dict(name='serialize', cls='mc_result', self='mc_result', opts=_ST_OPTS),
    'vegas_result_serialize': dict(unit='chkpt', name='serialize', cls='vegas_result', self='vegas_result', opts=_ST_OPTS),
    'vegas_result_ctor1': dict(unit='chkpt', name='vegas_result', cls='vegas_result', self='vegas_result', ctor=True, sel='istream', opts=_ST_OPTS),
    'multi_channel_result_serialize': dict(unit='chkpt', name='serialize', cls='multi_channel_result', self='multi_channel_result', opts=_ST_OPTS),
    'multi_channel_result_ctor1': dict(unit='chkpt', name='multi_channel_result', cls='multi_channel_result', self='multi_channel_result', ctor=True, sel='istream', opts=_ST_OPTS),
    'rng_chkpt_plain_result_serialize': dict(unit='chkpt', name='serialize', cls='chkpt_with_rng', cls_targs_has='plain_result', self='rng_chkpt_plain_result', opts=_ST_OPTS),
    'rng_chkpt_plain_result_ctor1': dict(unit='chkpt', name='chkpt_with_rng', cls='chkpt_with_rng', cls_targs_has='plain_result', self='rng_chkpt_plain_result', ctor=True, sel='istream', opts=_ST_OPTS),
    'distribution_parameters_serialize': dict(name='serialize', cls='distribution_parameters', self='distribution_parameters', opts=dict(streams=True, stream_lines=True)),
    'distribution_parameters_ctor1': dict(name='distribution_parameters', cls='distribution_parameters', self='distribution_parameters', ctor=True, sel='istream', opts=dict(streams=True, stream_lines=True)),
    'distribution_result_serialize': dict(name='serialize', cls='distribution_result', self='distribution_result', opts=_ST_OPTS),
    'distribution_result_ctor1': dict(name='distribution_result', cls='distribution_result', self='distribution_result', ctor=True, sel='istream', opts=_ST_OPTS),
    'plain_result_serialize': dict(name='serialize', cls='plain_result', self='plain_result', opts=_ST_OPTS),
    'plain_result_ctor1': dict(name='plain_result', cls='plain_result', self='plain_result', ctor=True, sel='istream', opts=_ST_OPTS),
    'chkpt_plain_result_serialize': dict(unit='chkpt', name='serialize', cls='chkpt', cls_targs=['hep::plain_result<double>'], self='chkpt_plain_result', opts=dict(streams=True, stream_lines=True)),
    'chkpt_plain_result_ctor1': dict(unit='chkpt', name='chkpt', cls='chkpt', cls_targs=['hep::plain_result<double>'], self='chkpt_plain_result', ctor=True, sel='istream', opts=dict(streams=True, stream_lines=True)),
    'vegas_pdf_serialize': dict(name='serialize', cls='vegas_pdf', self='vegas_pdf', opts=_ST_OPTS),
    'vegas_pdf_ctor1': dict(name='vegas_pdf', cls='vegas_pdf', self='vegas_pdf', ctor=True, sel='istream', opts=_ST_OPTS),
    'vegas_chkpt_serialize': dict(unit='chkpt', name='serialize', cls='vegas_chkpt', self='vegas_chkpt', opts=_ST_OPTS),
    'vegas_chkpt_ctor1': dict(unit='chkpt', name='vegas_chkpt', cls='vegas_chkpt', self='vegas_chkpt', ctor=True, sel='istream', opts=_ST_OPTS),
    'multi_channel_chkpt_serialize': dict(unit='chkpt', name='serialize', cls='multi_channel_chkpt', self='multi_channel_chkpt', opts=_ST_OPTS),
    'multi_channel_chkpt_ctor1': dict(unit='chkpt', name='multi_channel_chkpt', cls='multi_channel_chkpt', self='multi_channel_chkpt', ctor=True, sel='istream', opts=_ST_OPTS),
    'mc_result_ctor1': dict(name='mc_result', cls='mc_result', self='mc_result', ctor=True, sel='istream', opts=_ST_OPTS),
})

# ---- fragments: single expressions inside the MPI drivers -----------------------------------
_SUBP = [('size_t', 'calls'), ('int', 'rank'), ('int', 'world')]
_DISP = [('size_t', 'calls'), ('int', 'rank'), ('int', 'world'), ('size_t', 'usage')]
_DIS2 = [('size_t', 'calls'), ('int', 'rank'), ('int', 'world'), ('size_t', 'usage'), ('size_t', 'sub_calls')]
FRAGMENTS = {}
for _d in ('mpi_plain', 'mpi_vegas', 'mpi_multi_channel'):
    FRAGMENTS[_d + '_sub_calls'] = dict(unit='mpi', fn=_d, var='sub_calls', params=_SUBP, ret='size_t')
    FRAGMENTS[_d + '_discard1'] = dict(unit='mpi', fn=_d, call=('discard', 0, 0), count=2, params=_DISP, ret='size_t')
    FRAGMENTS[_d + '_discard2'] = dict(unit='mpi', fn=_d, call=('discard', 1, 0), count=2, params=_DIS2, ret='size_t')

FRAGMENTS['callback_decision'] = dict(unit='chkpt', fn='operator()', cls='callback', var='perform_more_iterations', returned_by=True,
                                      params=[('T', 'val_all'), ('T', 'err_all'), ('T', 'target_rel_err_')], ret='_Bool')

# ---- B1 jobs ------------------------------------------------------------------------------------
_GHOSTS = ('size_t vp_invocations, vp_weight_calls, vp_acc_calls; T vp_last_f, vp_last_w, vp_last_acc; const T *vp_acc_p1, *vp_acc_p2, *vp_acc_p3; '
           'T vp_w_s0, vp_w_s1, vp_w_s2; size_t vp_w_nz, vp_w_fc; size_t vp_draws; T vp_last_u; size_t vp_g_nz, vp_g_fc, vp_g_exp; T vp_g_weight, vp_g_slot, vp_last_ret; size_t vp_g_nnz;')
_ST_RES = [dict(cls='mc_point'), dict(cls='distribution_parameters', vec=True), dict(cls='mc_result', vec=True), dict(cls='distribution_result', vec=True),
           dict(cls='plain_result'), dict(cls='accumulator', cls_targs=['double', '0'], cname='accumulator_nodist'),
           dict(cname='vpinst_Fn', opaque=True), dict(unit='drivers', cls='integrand', cname='integrand')]
_F_IT = ['accumulator_nodist_ctor1', 'integrand_dimensions', 'integrand_parameters', 'mc_point_ctor1', 'accumulator_nodist_invoke',
         'accumulator_nodist_result', 'accumulate', 'plain_result_ctor6', 'mc_result_ctor5']
_ST_ACC = [dict(cls='mc_point'), dict(cls='accumulator', cls_targs=['double', '0'], cname='accumulator_nodist')]
_ST_DIST = [dict(cls='mc_point'), dict(cls='distribution_parameters', vec=True),
            dict(cls='accumulator', cls_targs=['double', '1'], cname='accumulator_dist'), dict(cls='projector'),
            dict(cls='integrand', cname='integrand', opaque=True)]
_MAPGHOSTS = (' size_t vp_map_calls, vp_coord_calls, vp_dens_calls; int vp_map_action; size_t vp_map_channel; '
              'const void *vp_map_rn, *vp_map_coords, *vp_map_enabled, *vp_map_dens; T vp_map_ret; T vp_g_total; int vp_phase; size_t vp_c_channel; const void *vp_c_rn, *vp_c_coords, *vp_c_enabled, *vp_c_dens; const void *vp_sel_src; _Bool vp_g_total_ok; T vp_g_uk;')
_ST_MC = [dict(cls='mc_point'), dict(cname='vpinst_Map', opaque=True), dict(unit='drivers', cls='multi_channel_point'),
          dict(unit='drivers', cls='multi_channel_point2')]
_ST_CHK = [dict(cls='distribution_parameters', vec=True), dict(cls='mc_result', vec=True), dict(cls='distribution_result', vec=True), dict(cls='plain_result', vec=True),
           dict(prelude='rngvec.h'), dict(unit='chkpt', cls='chkpt', cls_targs=['hep::plain_result<double>'], cname='chkpt_plain_result'),
           dict(unit='chkpt', cls='chkpt_with_rng', cls_targs_has='plain_result', cname='rng_chkpt_plain_result')]
_REFGHOST = 'size_t vp_refine_calls; const void *vp_refine_state, *vp_refine_data; T vp_refine_p1, vp_refine_p2;'
_ST_VCHK = [dict(cls='distribution_parameters', vec=True), dict(cls='mc_result', vec=True), dict(cls='distribution_result', vec=True), dict(cls='plain_result', vec=True),
            dict(cls='vegas_pdf', cls_targs=['double'], vec=True), dict(unit='drivers', cls='vegas_result', vec=True),
            dict(unit='chkpt', cls='chkpt', cls_targs=['hep::vegas_result<double>'], cname='chkpt_vegas_result'), dict(unit='chkpt', cls='vegas_chkpt', cls_targs=['double'])]
_ST_MCHK = [dict(cls='distribution_parameters', vec=True), dict(cls='mc_result', vec=True), dict(cls='distribution_result', vec=True), dict(cls='plain_result', vec=True),
            dict(unit='drivers', cls='multi_channel_result', vec=True),
            dict(unit='chkpt', cls='chkpt', cls_targs=['hep::multi_channel_result<double>'], cname='chkpt_multi_channel_result'), dict(unit='chkpt', cls='multi_channel_chkpt', cls_targs=['double'])]
_DGHOSTS = 'size_t vp_acc_calls; T vp_last_acc; const T *vp_acc_p1, *vp_acc_p2, *vp_acc_p3; _Bool vp_g_hit; size_t vp_g_bin;'
_T_USER = 'user integrand and virtual point.weight() are contract stubs returning any value of T (NaN, +-inf, +-0 included)'

JOBS = [
    dict(name='usage_enumeration', kind='native-bounded', bounded=True, cpp='usage', obligation='C10.usage',
         what='random_number_usage<T,R>() equals the raw draws of one generate_canonical call', props=['C10', 'C04']),
    dict(name='c05_native_roundtrip', kind='native-bounded', bounded=True, cpp='c05', obligation='C05.native_roundtrip', input_obligation='C05.native_roundtrip', reals=['float', 'double', 'long double'],
         what='write -> text -> read of mc_result, distribution parameters (regular names), plain/VEGAS/multi-channel checkpoints with nine standard engines on a fixed set of hard finite values, REAL templates', props=['C05', 'C03']),
    dict(name='numeric_type_purity', kind='static-purity', units=['kernels', 'drivers', 'chkpt', 'mpidrv'],
         props=['C09', 'C08', 'C07', 'C01', 'C02', 'C05', 'C13', 'C11', 'C14', 'C17', 'C06', 'C10', 'C04', 'C19']),
    dict(name='ieee_facts', kind='lemma', source='lemmas/ieee_facts.c', real='double', thorough_reals=['float'],
         props=['C07', 'C09', 'C08', 'C17', 'C01', 'C02', 'C06'], timeout=dict(quick=240, thorough=1200)),
    dict(name='accumulate', functions=['accumulate'], entry='h_accumulate', enforce='accumulate', solvers=['cvc5', 'cadical'],
         structs=_ST_ACC, late_preludes=['stubs.h'], globals=_GHOSTS, props=['C14', 'C02'], thorough_reals=['float']),
    dict(name='invoke_nodist', functions=['accumulator_nodist_invoke', 'accumulate'], entry='h_accumulator_nodist_invoke', af=['accumulator_nodist_invoke'],
         enforce='accumulator_nodist_invoke', replace=['accumulate'],
         structs=_ST_ACC + [dict(cls='integrand', cname='integrand', opaque=True)], late_preludes=['stubs.h'], globals=_GHOSTS,
         props=['C02', 'C06', 'C17', 'C01', 'C14'], key_props=['C02', 'C06', 'C17', 'C01'], thorough_reals=['float'], trusted=[_T_USER]),
    dict(name='invoke_dist', functions=['accumulator_dist_invoke', 'accumulate', 'projector_ctor2'], entry='h_accumulator_dist_invoke', af=['accumulator_dist_invoke'],
         enforce='accumulator_dist_invoke', replace=['accumulate'],
         structs=_ST_DIST, preludes=['opaque.h'], late_preludes=['stubs.h'], globals=_GHOSTS,
         defines=['VP_WITH_PROJECTOR', 'VP_NMAX=65536'], props=['C02', 'C06', 'C17', 'C01', 'C14'], key_props=['C02', 'C06', 'C17', 'C01'], thorough_reals=['float'],
         trusted=[_T_USER, 'the integrand may change only bin slots through the projector (proved for add_to_1d/2d_distribution in jobs dist1d/dist2d)']),
    dict(name='result_nodist', functions=['accumulator_nodist_result', 'plain_result_ctor6', 'mc_result_ctor5'], entry='h_accumulator_nodist_result',
         enforce='accumulator_nodist_result', structs=_ST_RES, preludes=['opaque.h'], late_preludes=['stubs.h'], globals=_GHOSTS,
         props=['C02']),
    dict(name='plain_iteration', functions=['plain_iteration'] + _F_IT, entry='h_plain_iteration', enforce='plain_iteration',
         replace=['accumulator_nodist_invoke', 'accumulator_nodist_result'], af=['accumulator_nodist_invoke'],
         structs=_ST_RES, preludes=['opaque.h'], late_preludes=['stubs.h'], globals=_GHOSTS,
         defines=['VP_DMAX=1048576', 'VP_CALLSMAX=1099511627776', 'VP_GEXPMAX=1152921504606846976'], props=['C02', 'C10', 'C17'], trusted=[_T_USER,
         'std::generate_canonical: assumed contract (value in [0,1], fixed raw draws per number)']),
    dict(name='vegas_pdf_bin_left', functions=['vegas_pdf_bin_left'], entry='h_vegas_pdf_bin_left', enforce='vegas_pdf_bin_left',
         structs=[dict(cls='vegas_pdf', cls_targs=['double'])], defines=['VP_BINSMAX=1048576', 'VP_DIMSMAX=1024'], props=['C07', 'C17', 'C01']),
    dict(name='vegas_icdf', functions=['vegas_icdf', 'vegas_pdf_bin_left', 'vegas_pdf_bins', 'vegas_pdf_dimensions'], entry='h_vegas_icdf',
         specs=['vegas_icdf', 'vegas_pdf_bin_left_abs'], replace=['vegas_pdf_bin_left'], split='always', split_workers=8,
         enforce='vegas_icdf', af=['vegas_icdf'], structs=[dict(cls='vegas_pdf', cls_targs=['double'])], globals='T vp_g_weight;',
         defines=['VP_BINSMAX=1048576', 'VP_DIMSMAX=1024'], props=['C07', 'C17', 'C01'], thorough_reals=['float'],
         assumptions=['libm: nexttoward(1, 0) lies in (1/2, 1)', 'every canonical number handed to vegas_icdf lies in [0,1] (std::generate_canonical contract)']),
    dict(name='vegas_iteration', functions=['vegas_iteration', 'vegas_point_ctor3', 'vegas_point_bin', 'vegas_result_ctor3', 'mc_point_ctor2', 'vegas_icdf',
                                             'vegas_pdf_bin_left', 'vegas_pdf_bins', 'vegas_pdf_dimensions'] + _F_IT,
         specs=['vegas_iteration', 'vegas_icdf_abs', 'accumulator_nodist_invoke', 'accumulator_nodist_result', 'accumulate'],
         entry='h_vegas_iteration', enforce='vegas_iteration', replace=['accumulator_nodist_invoke', 'accumulator_nodist_result', 'vegas_icdf'],
         af=['accumulator_nodist_invoke', 'vegas_icdf', 'vegas_iteration'], split='always', split_workers=14, solvers=['cadical', 'cvc5'], timeout=dict(quick=600, thorough=1800),
         structs=_ST_RES + [dict(cls='vegas_pdf', cls_targs=['double']), dict(unit='drivers', cls='vegas_point'), dict(unit='drivers', cls='vegas_result')],
         preludes=['opaque.h'], late_preludes=['stubs.h'], globals=_GHOSTS,
         defines=['VP_DIMSMAX=1024', 'VP_BINSMAX=1048576', 'VP_CALLSMAX=1099511627776'], props=['C02', 'C10', 'C17', 'C06', 'C19'],
         trusted=[_T_USER, 'std::generate_canonical: assumed contract (value in [0,1], fixed raw draws per number)']),
    dict(name='partial_sum', functions=[], specs=['partial_sum'], harness_sections=['partial_sum'], entry='h_partial_sum', enforce='vp_partial_sum',
         late_preludes=['algo.h'], defines=['VP_ALGO_BODIES', 'VP_NMAX=1048576'], props=['C09'], thorough_reals=['float'],
         trusted=['libstdc++ std::partial_sum behaves like the reference left fold in vp/prelude/algo.h ([partial.sum])']),
    dict(name='discrete_ctor', functions=['discrete_distribution_ctor2'], entry='h_discrete_distribution_ctor2', enforce='discrete_distribution_ctor2',
         replace=['vp_partial_sum', 'vp_accumulate'], af=['discrete_distribution_ctor2'], structs=[dict(unit='drivers', cls='discrete_distribution')],
         late_preludes=['algo.h'], globals='_Bool vp_g_total_ok; const void *vp_sel_src;', defines=['VP_NMAX=1048576'], props=['C09', 'C17'], thorough_reals=['float'],
         trusted=['L-mono-div: IEEE division by a fixed positive divisor is monotone in the dividend (two-division comparison, undecided by the back ends)']),
    dict(name='discrete_call', functions=['discrete_distribution_call'], entry='h_discrete_distribution_call', enforce='discrete_distribution_call',
         replace=['vp_lower_bound', 'vp_upper_bound'], structs=[dict(unit='drivers', cls='discrete_distribution')],
         late_preludes=['stubs.h', 'algo.h'], globals='size_t vp_draws; T vp_last_u; _Bool vp_g_total_ok;', defines=['VP_NMAX=1048576'], props=['C09', 'C10', 'C17'],
         trusted=['std::lower_bound / std::upper_bound: assumed partition-point contract on a sorted range', 'std::generate_canonical: assumed contract']),
    dict(name='discrete_select', functions=['discrete_distribution_ctor2', 'discrete_distribution_call'], specs=['discrete_distribution_ctor2', 'discrete_distribution_call', 'discrete_select'],
         harness_sections=['discrete_select'], entry='h_discrete_select', enforce=None, replace=['discrete_distribution_ctor2', 'discrete_distribution_call'],
         structs=[dict(unit='drivers', cls='discrete_distribution')], late_preludes=['stubs.h', 'algo.h'],
         globals='size_t vp_draws; T vp_last_u; _Bool vp_g_total_ok; const void *vp_sel_src;', defines=['VP_NMAX=1048576'], props=['C09', 'C17'], loop_contracts=False),
    dict(name='mc_point2_weight', functions=['multi_channel_point2_weight', 'multi_channel_point_channel', 'multi_channel_point_coordinates', 'mc_point_point'],
         entry='h_multi_channel_point2_weight', enforce='multi_channel_point2_weight', af=['multi_channel_point2_weight'],
         structs=_ST_MC, preludes=['opaque.h'], late_preludes=['stubs.h'], globals=_GHOSTS + _MAPGHOSTS, defines=['VP_NMAX=1048576', 'VP_MC_PROTOCOL'],
         props=['C17', 'C01'], thorough_reals=['float'], trusted=['the channel map is user code: contract stub that may write the coordinate/density buffers and returns any value']),
    dict(name='invoke_mc', functions=['accumulator_nodist_invoke_mc', 'accumulate', 'multi_channel_point2_weight', 'multi_channel_point_channel', 'multi_channel_point_coordinates', 'mc_point_point'],
         entry='h_accumulator_nodist_invoke_mc', enforce='accumulator_nodist_invoke_mc', replace=['accumulate', 'multi_channel_point2_weight'],
         af=['accumulator_nodist_invoke_mc', 'multi_channel_point2_weight'],
         structs=_ST_MC + [dict(cls='accumulator', cls_targs=['double', '0'], cname='accumulator_nodist'), dict(cname='multi_channel_integrand', opaque=True)],
         preludes=['opaque.h'], late_preludes=['stubs.h'], globals=_GHOSTS + _MAPGHOSTS, defines=['VP_NMAX=1048576', 'VP_MC_PROTOCOL'],
         props=['C17', 'C02', 'C06', 'C01', 'C14'], key_props=['C17', 'C02', 'C06', 'C01'], trusted=[_T_USER]),
    dict(name='multi_channel_iteration', functions=['multi_channel_iteration', 'accumulator_nodist_invoke_mc', 'multi_channel_point2_weight', 'multi_channel_point2_ctor7', 'multi_channel_point_ctor4',
                                                     'mc_point_ctor2', 'multi_channel_point_channel', 'multi_channel_point_coordinates', 'mc_point_point',
                                                     'multi_channel_integrand_map_dimensions', 'multi_channel_integrand_map', 'multi_channel_result_ctor3',
                                                     'discrete_distribution_ctor2', 'discrete_distribution_call',
                                                     'accumulator_nodist_ctor1', 'integrand_dimensions', 'integrand_parameters', 'accumulator_nodist_result', 'accumulate', 'plain_result_ctor6', 'mc_result_ctor5'],
         entry='h_multi_channel_iteration', enforce='multi_channel_iteration',
         replace=['accumulator_nodist_invoke_mc', 'multi_channel_point2_weight', 'discrete_distribution_ctor2', 'discrete_distribution_call', 'accumulator_nodist_result'],
         af=['multi_channel_iteration', 'accumulator_nodist_invoke_mc', 'multi_channel_point2_weight', 'discrete_distribution_ctor2'], split='always', split_workers=14, solvers=['cvc5', 'cadical'],
         structs=[dict(cls='mc_point'), dict(cls='distribution_parameters', vec=True), dict(cls='mc_result', vec=True), dict(cls='distribution_result', vec=True),
                  dict(cls='plain_result'), dict(cls='accumulator', cls_targs=['double', '0'], cname='accumulator_nodist'),
                  dict(cname='vpinst_Fn', opaque=True), dict(unit='drivers', cls='integrand', cname='integrand'), dict(cname='vpinst_Map', opaque=True),
                  dict(unit='drivers', cls='multi_channel_integrand'), dict(unit='drivers', cls='multi_channel_point'), dict(unit='drivers', cls='multi_channel_point2'),
                  dict(unit='drivers', cls='multi_channel_result'), dict(unit='drivers', cls='discrete_distribution')],
         preludes=['opaque.h'], late_preludes=['stubs.h', 'algo.h'], globals=_GHOSTS + _MAPGHOSTS,
         defines=['VP_DIMSMAX=1024', 'VP_NMAX=1048576', 'VP_CALLSMAX=1099511627776', 'VP_MC_PROTOCOL'], props=['C02', 'C10', 'C17', 'C06', 'C19', 'C09', 'C01'],
         trusted=[_T_USER, 'the channel map is user code (contract stub)', 'std::generate_canonical: assumed contract']),
    dict(name='chkpt_rollback', functions=['rng_chkpt_plain_result_rollback', 'chkpt_plain_result_rollback'], entry='h_rng_chkpt_plain_result_rollback',
         enforce='rng_chkpt_plain_result_rollback', structs=_ST_CHK, preludes=['opaque.h'], late_preludes=[], defines=['VP_NMAX=1048576'], props=['C15']),
    dict(name='chkpt_add', functions=['rng_chkpt_plain_result_add'], entry='h_rng_chkpt_plain_result_add',
         enforce='rng_chkpt_plain_result_add', structs=_ST_CHK, preludes=['opaque.h'], defines=['VP_NMAX=1048576'], props=['C15', 'C03', 'C12']),
    dict(name='chkpt_generator', functions=['rng_chkpt_plain_result_generator'], entry='h_rng_chkpt_plain_result_generator',
         enforce='rng_chkpt_plain_result_generator', structs=_ST_CHK, preludes=['opaque.h'], defines=['VP_NMAX=1048576'], props=['C15', 'C03']),
    dict(name='vegas_chkpt_pdf', functions=['vegas_chkpt_pdf', 'chkpt_vegas_result_results', 'vegas_result_pdf', 'vegas_result_adjustment_data', 'vegas_refine_pdf'],
         specs=['vegas_chkpt_pdf', 'refine_abs'], entry='h_vegas_chkpt_pdf', enforce='vegas_chkpt_pdf', replace=['vegas_refine_pdf'],
         structs=_ST_VCHK, preludes=['opaque.h'], globals=_REFGHOST, defines=['VP_NMAX=1048576'], props=['C19', 'C03', 'C07', 'C15'], key_props=['C19', 'C03', 'C07'], stub_bodies=['vegas_refine_pdf']),
    dict(name='vegas_pdf_ctor', functions=['vegas_pdf_ctor2'], entry='h_vegas_pdf_ctor2', enforce='vegas_pdf_ctor2', af=['vegas_pdf_ctor2'],
         structs=[dict(cls='vegas_pdf', cls_targs=['double'])], defines=['VP_DIMSMAX=1024', 'VP_BINSMAX=1048576'], props=['C07', 'C19']),   # float: two obligations stay undecided after 50 min - not part of the thorough tier
    dict(name='vegas_chkpt_dimensions', functions=['vegas_chkpt_dimensions', 'chkpt_vegas_result_results', 'vegas_result_pdf', 'vegas_pdf_dimensions', 'vegas_pdf_ctor2'],
         specs=['vegas_chkpt_dimensions', 'vegas_pdf_ctor2'], entry='h_vegas_chkpt_dimensions', enforce='vegas_chkpt_dimensions', replace=['vegas_pdf_ctor2'], harness_sections=['vegas_chkpt_dimensions'], no_sof=True,
         structs=_ST_VCHK, preludes=['opaque.h'], defines=['VP_NMAX=1048576', 'VP_DIMSMAX=1024', 'VP_BINSMAX=1048576'], props=['C19', 'C15']),
    dict(name='mc_chkpt_channel_weights', functions=['multi_channel_chkpt_channel_weights', 'chkpt_multi_channel_result_results', 'multi_channel_result_channel_weights', 'multi_channel_result_adjustment_data', 'multi_channel_refine_weights'],
         specs=['multi_channel_chkpt_channel_weights', 'refine_abs'], entry='h_multi_channel_chkpt_channel_weights', enforce='multi_channel_chkpt_channel_weights', replace=['multi_channel_refine_weights'],
         structs=_ST_MCHK, preludes=['opaque.h'], globals=_REFGHOST, defines=['VP_NMAX=1048576'], props=['C19', 'C03', 'C08', 'C15'], key_props=['C19', 'C03', 'C08'], stub_bodies=['multi_channel_refine_weights']),
    dict(name='mc_chkpt_channels', functions=['multi_channel_chkpt_channels', 'chkpt_multi_channel_result_results', 'multi_channel_result_channel_weights'],
         specs=['multi_channel_chkpt_channels'], entry='h_multi_channel_chkpt_channels', enforce='multi_channel_chkpt_channels',
         structs=_ST_MCHK, preludes=['opaque.h'], defines=['VP_NMAX=1048576'], props=['C19', 'C15', 'C08']),
    dict(name='callback_decision', functions=[], fragments=['callback_decision'], specs=['callback_decision'], harness_sections=['callback_decision'],
         entry='h_callback_decision', enforce='callback_decision', props=['C12', 'C20'], thorough_reals=['float'], solvers=['cvc5', 'cadical'],
         assumptions=['the combined result handed to the decision is accumulate<weighted_with_variance> over all results (C13); the decision is the only value operator() returns (checked on the AST: single return of this variable)']),
    dict(name='weighted_with_variance', functions=['weighted_with_variance_call', 'mc_result_calls', 'mc_result_non_zero_calls', 'mc_result_finite_calls', 'mc_result_value', 'mc_result_variance', 'create_result', 'mc_result_ctor5'],
         entry='h_weighted_with_variance_call', enforce='weighted_with_variance_call', af=['weighted_with_variance_call', 'mc_result_value', 'mc_result_variance', 'create_result'],
         structs=[dict(cls='mc_result', vec=True), dict(cname='weighted_with_variance', opaque=True)], globals='size_t vp_g_calls, vp_g_nz, vp_g_fc;',
         defines=['VP_NMAX=1048576', 'VP_CALLSMAX=1099511627776'], props=['C13', 'C12'], thorough_reals=['float']),
    dict(name='weighted_equally', functions=['weighted_equally_call', 'mc_result_calls', 'mc_result_non_zero_calls', 'mc_result_finite_calls', 'mc_result_value', 'create_result', 'mc_result_ctor5'],
         entry='h_weighted_equally_call', enforce='weighted_equally_call', af=['weighted_equally_call', 'mc_result_value', 'create_result'],
         structs=[dict(cls='mc_result', vec=True), dict(cname='weighted_equally', opaque=True)], globals='size_t vp_g_calls, vp_g_nz, vp_g_fc; T vp_g_sum, vp_g_sumsq;',
         defines=['VP_NMAX=1048576', 'VP_CALLSMAX=1099511627776'], props=['C13']),
    dict(name='chi_square', functions=['chi_square_dof', 'mc_result_value', 'mc_result_variance'], entry='h_chi_square_dof', enforce='chi_square_dof',
         af=['chi_square_dof', 'mc_result_value', 'mc_result_variance'], structs=_ST_VCHK[:4], preludes=['opaque.h'],
         globals='size_t vp_cm_calls, vp_cm_lo, vp_cm_hi; const void *vp_cm_vec; T vp_g_E;', defines=['VP_NMAX=1048576'], props=['C13'],
         trusted=['the accumulator functor is a logged stub returning any result (its contract: job weighted_with_variance)', 'n - 1 as an unsigned expression: for an empty range the code divides 0 by T(SIZE_MAX) (defined wrap, result 0)']),
    dict(name='acc_dist_ctor', functions=['accumulator_dist_ctor1', 'distribution_parameters_bins_x', 'distribution_parameters_bins_y'],
         specs=['accumulator_dist_ctor1'], entry='h_accumulator_dist_ctor1', enforce='accumulator_dist_ctor1',
         structs=[dict(cls='distribution_parameters', vec=True), dict(cls='accumulator', cls_targs=['double', '1'], cname='accumulator_dist')],
         preludes=['opaque.h'], globals='size_t vp_g_t;', defines=['VP_DMAX=65536', 'VP_BINSMAX=1024'], props=['C11', 'C02'],
         assumptions=['every distribution has 1 <= bins_x, bins_y <= 1024 and there are at most 2^16 distributions (hypothesis assumed at the elements read)']),
    dict(name='dist1d', functions=['accumulator_dist_add_to_1d_distribution', 'accumulate', 'distribution_parameters_x_min', 'distribution_parameters_bin_size_x', 'distribution_parameters_bins_x'],
         specs=['accumulator_dist_add_to_1d_distribution', 'accumulate'], entry='h_accumulator_dist_add_to_1d_distribution', enforce='accumulator_dist_add_to_1d_distribution',
         replace=['accumulate'], structs=[dict(cls='distribution_parameters', vec=True), dict(cls='accumulator', cls_targs=['double', '1'], cname='accumulator_dist')],
         preludes=['opaque.h'], globals=_DGHOSTS, defines=['VP_NMAX=1048576', 'VP_BINSMAX=1048576'], props=['C11', 'C06', 'C14'], thorough_reals=['float']),
    dict(name='dist2d', functions=['accumulator_dist_add_to_2d_distribution', 'accumulate', 'distribution_parameters_x_min', 'distribution_parameters_bin_size_x', 'distribution_parameters_bins_x',
                                    'distribution_parameters_y_min', 'distribution_parameters_bin_size_y', 'distribution_parameters_bins_y'],
         specs=['accumulator_dist_add_to_2d_distribution', 'accumulate'], entry='h_accumulator_dist_add_to_2d_distribution', enforce='accumulator_dist_add_to_2d_distribution',
         replace=['accumulate'], structs=[dict(cls='distribution_parameters', vec=True), dict(cls='accumulator', cls_targs=['double', '1'], cname='accumulator_dist')],
         preludes=['opaque.h'], globals=_DGHOSTS, defines=['VP_NMAX=1048576', 'VP_BINSMAX=1024', 'VP_AT_ASSUME'], props=['C11', 'C06', 'C14'],
         assumptions=['2-d cell index inside the block (non-linear): proved over the integers in job int_lemmas (L-cell-index) and assumed at the at() calls of add_to_2d_distribution']),
    dict(name='vegas_refine_pdf', functions=['vegas_refine_pdf', 'vegas_pdf_bin_left', 'vegas_pdf_set_bin_left', 'vegas_pdf_bins', 'vegas_pdf_dimensions'],
         specs=['vegas_refine_pdf', 'vegas_pdf_bin_left_abs_log', 'vegas_pdf_set_bin_left_abs'], entry='h_vegas_refine_pdf', enforce='vegas_refine_pdf',
         replace=['vegas_pdf_bin_left', 'vegas_pdf_set_bin_left'], af=['vegas_refine_pdf'], structs=[dict(cls='vegas_pdf', cls_targs=['double'])],
         defines=['VP_BINSMAX=1048576', 'VP_DIMSMAX=1024'], props=['C07'], split='auto',
         assumptions=['C07.safe hypothesis: the redistribution search stops inside the grid (bin < bins assumed at each step)', 'libm pow/log: assumed contracts',
                      'the new grid is observed through one arbitrary ghost boundary (abstraction documented in specs/vegas_refine_pdf.spec)']),
    dict(name='plain_driver', functions=['plain', 'plain_iteration', 'rng_chkpt_plain_result_add', 'rng_chkpt_plain_result_generator'],
         specs=['plain', 'iteration_abs', 'chkpt_abs'], harness_sections=['plain'], entry='h_plain', enforce='plain',
         replace=['plain_iteration', 'rng_chkpt_plain_result_add', 'rng_chkpt_plain_result_generator'], stub_bodies=['plain_iteration', 'rng_chkpt_plain_result_add', 'rng_chkpt_plain_result_generator'],
         structs=_ST_CHK + [dict(cname='vpinst_Fn', opaque=True), dict(unit='drivers', cls='integrand', cname='integrand'), dict(cname='vpinst_PCb', opaque=True)],
         preludes=['opaque.h'], late_preludes=['stubs_cb.h'], globals='size_t vp_cb_calls, vp_cb_seen_n; _Bool vp_cb_ret; const void *vp_cb_arg; size_t vp_it_count, vp_it_calls; const void *vp_it_gen; size_t vp_g_done; size_t vp_chk_last_gen, vp_add_calls; const void *vp_add_result;',
         defines=['VP_ITMAX=65536', 'VP_NMAX=1048576'], props=['C12', 'C03', 'C19'], trusted=['the callback is user code (or hep::callback, whose decision is the callback_decision job): nondeterministic stub']),
    dict(name='vegas_driver', functions=['vegas', 'vegas_iteration', 'rng_vegas_chkpt_add', 'rng_vegas_chkpt_generator', 'vegas_chkpt_pdf', 'vegas_chkpt_dimensions', 'integrand_dimensions'],
         specs=['vegas', 'drivers_abs'], harness_sections=['vegas'], entry='h_vegas', enforce='vegas',
         replace=['vegas_iteration', 'rng_vegas_chkpt_add', 'rng_vegas_chkpt_generator', 'vegas_chkpt_pdf', 'vegas_chkpt_dimensions'],
         stub_bodies=['vegas_iteration', 'rng_vegas_chkpt_add', 'rng_vegas_chkpt_generator', 'vegas_chkpt_pdf', 'vegas_chkpt_dimensions'],
         structs=_ST_VCHK + [dict(prelude='rngvec.h'), dict(unit='chkpt', cls='chkpt_with_rng', cls_targs_has='vegas_chkpt', cname='rng_vegas_chkpt'),
                             dict(cname='vpinst_Fn', opaque=True), dict(unit='drivers', cls='integrand', cname='integrand'), dict(cname='vpinst_VCb', opaque=True)],
         preludes=['opaque.h'], late_preludes=['stubs_cb2.h'], globals='size_t vp_cb_calls, vp_cb_seen_n; _Bool vp_cb_ret; const void *vp_cb_arg; size_t vp_it_count, vp_it_calls; const void *vp_it_gen; size_t vp_g_done; size_t vp_chk_last_gen, vp_add_calls; const void *vp_add_result; size_t vp_state_calls, vp_setup_calls, vp_setup_arg; const void *vp_state_obj, *vp_it_state, *vp_it_result;',
         defines=['VP_ITMAX=65536', 'VP_NMAX=1048576'], props=['C12', 'C03', 'C19'], trusted=['the callback is user code: nondeterministic stub']),
    dict(name='mpi_vegas_driver', functions=['mpi_vegas', 'vegas_iteration', 'rng_vegas_chkpt_add', 'rng_vegas_chkpt_generator', 'vegas_chkpt_pdf', 'vegas_chkpt_dimensions', 'integrand_dimensions',
                                             'vegas_chkpt_alpha', 'vegas_result_adjustment_data', 'vegas_refine_pdf', 'vegas_pdf_dimensions', 'vegas_pdf_bins'],
         specs=['mpi_vegas', 'drivers_abs', 'refine_abs'], harness_sections=['mpi_vegas'], entry='h_mpi_vegas', enforce='mpi_vegas',
         replace=['vegas_iteration', 'rng_vegas_chkpt_add', 'rng_vegas_chkpt_generator', 'vegas_chkpt_pdf', 'vegas_chkpt_dimensions', 'vegas_refine_pdf'],
         stub_bodies=['vegas_iteration', 'rng_vegas_chkpt_add', 'rng_vegas_chkpt_generator', 'vegas_chkpt_pdf', 'vegas_chkpt_dimensions', 'vegas_refine_pdf'],
         structs=_ST_VCHK + [dict(prelude='rngvec.h'), dict(unit='chkpt', cls='chkpt_with_rng', cls_targs_has='vegas_chkpt', cname='rng_vegas_chkpt'),
                             dict(cname='vpinst_Fn', opaque=True), dict(unit='drivers', cls='integrand', cname='integrand'), dict(cname='vpinst_VCb', opaque=True)],
         preludes=['opaque.h'], late_preludes=['stubs_cb2.h'], globals='size_t vp_cb_calls, vp_cb_seen_n; _Bool vp_cb_ret; const void *vp_cb_arg; size_t vp_it_count, vp_it_calls; const void *vp_it_gen; size_t vp_g_done; size_t vp_chk_last_gen, vp_add_calls; const void *vp_add_result; size_t vp_state_calls, vp_setup_calls, vp_setup_arg; const void *vp_state_obj, *vp_it_state, *vp_it_result; ' + _REFGHOST,
         defines=['VP_ITMAX=65536', 'VP_NMAX=1048576'], props=['C04', 'C19', 'C12', 'C07', 'C03', 'C16'],
         trusted=['the callback is a nondeterministic stub (its rank-independence: job mpi_callback)', 'allreduce_result, the iteration, the refinement and the checkpoint are abstract, logged contracts here; discard amounts are job c16_tiling']),
    dict(name='mpi_plain_driver', functions=['mpi_plain', 'plain_iteration', 'rng_chkpt_plain_result_add', 'rng_chkpt_plain_result_generator', 'integrand_dimensions'],
         specs=['mpi_plain', 'iteration_abs', 'chkpt_abs'], harness_sections=['mpi_plain'], entry='h_mpi_plain', enforce='mpi_plain',
         replace=['plain_iteration', 'rng_chkpt_plain_result_add', 'rng_chkpt_plain_result_generator'], stub_bodies=['plain_iteration', 'rng_chkpt_plain_result_add', 'rng_chkpt_plain_result_generator'],
         structs=_ST_CHK + [dict(cname='vpinst_Fn', opaque=True), dict(unit='drivers', cls='integrand', cname='integrand'), dict(cname='vpinst_PCb', opaque=True)],
         preludes=['opaque.h'], late_preludes=['stubs_cb.h'], globals='size_t vp_cb_calls, vp_cb_seen_n; _Bool vp_cb_ret; const void *vp_cb_arg; size_t vp_it_count, vp_it_calls; const void *vp_it_gen; size_t vp_g_done; size_t vp_chk_last_gen, vp_add_calls; const void *vp_add_result;',
         defines=['VP_ITMAX=65536', 'VP_NMAX=1048576'], props=['C04', 'C12', 'C03', 'C16'],
         trusted=['the callback is a nondeterministic stub (its rank-independence: job mpi_callback)', 'allreduce_result, the iteration and the checkpoint are abstract, logged contracts here; discard amounts are job c16_tiling']),
    dict(name='mpi_multi_channel_driver', functions=['mpi_multi_channel', 'multi_channel_iteration', 'rng_multi_channel_chkpt_add', 'rng_multi_channel_chkpt_generator', 'multi_channel_chkpt_channel_weights', 'multi_channel_chkpt_channels',
                                                     'multi_channel_integrand_channels', 'integrand_dimensions', 'multi_channel_chkpt_beta', 'multi_channel_chkpt_min_weight', 'multi_channel_result_adjustment_data', 'multi_channel_refine_weights'],
         specs=['mpi_multi_channel', 'drivers_abs', 'refine_abs'], harness_sections=['mpi_multi_channel'], entry='h_mpi_multi_channel', enforce='mpi_multi_channel',
         replace=['multi_channel_iteration', 'rng_multi_channel_chkpt_add', 'rng_multi_channel_chkpt_generator', 'multi_channel_chkpt_channel_weights', 'multi_channel_chkpt_channels', 'multi_channel_refine_weights'],
         stub_bodies=['multi_channel_iteration', 'rng_multi_channel_chkpt_add', 'rng_multi_channel_chkpt_generator', 'multi_channel_chkpt_channel_weights', 'multi_channel_chkpt_channels', 'multi_channel_refine_weights'],
         structs=_ST_MCHK + [dict(prelude='rngvec.h'), dict(unit='chkpt', cls='chkpt_with_rng', cls_targs_has='multi_channel_chkpt', cname='rng_multi_channel_chkpt'),
                             dict(cname='vpinst_Fn', opaque=True), dict(unit='drivers', cls='integrand', cname='integrand'), dict(cname='vpinst_Map', opaque=True),
                             dict(unit='drivers', cls='multi_channel_integrand'), dict(cname='vpinst_MCb', opaque=True)],
         preludes=['opaque.h'], late_preludes=['stubs_cb2.h'], globals='size_t vp_cb_calls, vp_cb_seen_n; _Bool vp_cb_ret; const void *vp_cb_arg; size_t vp_it_count, vp_it_calls; const void *vp_it_gen; size_t vp_g_done; size_t vp_chk_last_gen, vp_add_calls; const void *vp_add_result; size_t vp_state_calls, vp_setup_calls, vp_setup_arg; const void *vp_state_obj, *vp_it_state, *vp_it_result; ' + _REFGHOST,
         defines=['VP_ITMAX=65536', 'VP_NMAX=1048576'], props=['C04', 'C19', 'C12', 'C08', 'C03', 'C16'],
         trusted=['the callback is a nondeterministic stub (its rank-independence: job mpi_callback)', 'allreduce_result, the iteration, the refinement and the checkpoint are abstract, logged contracts here; discard amounts are job c16_tiling']),
    dict(name='multi_channel_driver', functions=['multi_channel', 'multi_channel_iteration', 'rng_multi_channel_chkpt_add', 'rng_multi_channel_chkpt_generator', 'multi_channel_chkpt_channel_weights', 'multi_channel_chkpt_channels', 'multi_channel_integrand_channels'],
         specs=['multi_channel', 'drivers_abs'], harness_sections=['multi_channel'], entry='h_multi_channel', enforce='multi_channel',
         replace=['multi_channel_iteration', 'rng_multi_channel_chkpt_add', 'rng_multi_channel_chkpt_generator', 'multi_channel_chkpt_channel_weights', 'multi_channel_chkpt_channels'],
         stub_bodies=['multi_channel_iteration', 'rng_multi_channel_chkpt_add', 'rng_multi_channel_chkpt_generator', 'multi_channel_chkpt_channel_weights', 'multi_channel_chkpt_channels'],
         structs=_ST_MCHK + [dict(prelude='rngvec.h'), dict(unit='chkpt', cls='chkpt_with_rng', cls_targs_has='multi_channel_chkpt', cname='rng_multi_channel_chkpt'),
                             dict(cname='vpinst_Fn', opaque=True), dict(unit='drivers', cls='integrand', cname='integrand'), dict(cname='vpinst_Map', opaque=True),
                             dict(unit='drivers', cls='multi_channel_integrand'), dict(cname='vpinst_MCb', opaque=True)],
         preludes=['opaque.h'], late_preludes=['stubs_cb2.h'], globals='size_t vp_cb_calls, vp_cb_seen_n; _Bool vp_cb_ret; const void *vp_cb_arg; size_t vp_it_count, vp_it_calls; const void *vp_it_gen; size_t vp_g_done; size_t vp_chk_last_gen, vp_add_calls; const void *vp_add_result; size_t vp_state_calls, vp_setup_calls, vp_setup_arg; const void *vp_state_obj, *vp_it_state, *vp_it_result;',
         defines=['VP_ITMAX=65536', 'VP_NMAX=1048576'], props=['C12', 'C03', 'C19'], trusted=['the callback is user code: nondeterministic stub']),
    dict(name='mid_points_x', functions=['mid_points_x', 'distribution_result_parameters', 'distribution_parameters_x_min', 'distribution_parameters_y_min', 'distribution_parameters_bin_size_x', 'distribution_parameters_bin_size_y', 'distribution_parameters_bins_x', 'distribution_parameters_bins_y'],
         entry='h_mid_points_x', enforce='mid_points_x', af=['mid_points_x'], structs=[dict(cls='distribution_parameters', vec=True), dict(cls='mc_result', vec=True), dict(cls='distribution_result', vec=True)],
         preludes=['opaque.h'], globals='size_t vp_g_rows;', defines=['VP_BINSMAX=1024', 'VP_PUSH_ASSUME_CAP'], props=['C11']),
    dict(name='mid_points_y', functions=['mid_points_y', 'distribution_result_parameters', 'distribution_parameters_x_min', 'distribution_parameters_y_min', 'distribution_parameters_bin_size_x', 'distribution_parameters_bin_size_y', 'distribution_parameters_bins_x', 'distribution_parameters_bins_y'],
         entry='h_mid_points_y', enforce='mid_points_y', af=['mid_points_y'], structs=[dict(cls='distribution_parameters', vec=True), dict(cls='mc_result', vec=True), dict(cls='distribution_result', vec=True)],
         preludes=['opaque.h'], globals='size_t vp_g_rows;', defines=['VP_BINSMAX=1024', 'VP_PUSH_ASSUME_CAP'], props=['C11']),
    dict(name='mpi_callback', functions=['mpi_callback_call'], entry='h_mpi_callback_call', enforce='mpi_callback_call',
         structs=[dict(prelude='stubs_mpi.h'), dict(cname='rng_vegas_chkpt', opaque=True), dict(cname='rng_chkpt_plain_result', opaque=True), dict(unit='mpi', cls='mpi_callback')],
         globals='size_t vp_inner_calls; _Bool vp_inner_ret; const void *vp_inner_arg; int vp_inner_mode_seen; int vp_rank;', props=['C04', 'C20'],
         trusted=['MPI_Comm_rank stores the rank; the wrapped hep::callback is a stub returning any decision (its decision logic: job callback_decision)']),
    dict(name='callback_full', functions=['callback_call', 'chkpt_plain_result_results', 'mc_result_calls', 'mc_result_value', 'mc_result_error_det', 'mc_result_variance', 'mc_result_non_zero_calls', 'mc_result_finite_calls'],
         specs=['callback_call'], entry='h_callback_call', enforce='callback_call', af=['callback_call', 'mc_result_value', 'mc_result_variance', 'mc_result_error_det'],
         structs=[dict(cls='distribution_parameters', vec=True), dict(cls='mc_result', vec=True), dict(cls='distribution_result', vec=True), dict(cls='plain_result', vec=True),
                  dict(prelude='rngvec.h'), dict(unit='chkpt', cls='chkpt', cls_targs=['hep::plain_result<double>'], cname='chkpt_plain_result'),
                  dict(unit='chkpt', cls='chkpt_with_rng', cls_targs_has='plain_result', cname='rng_plain_chkpt'), dict(prelude='stubs_cbfull.h'), dict(unit='chkpt', cls='callback')],
         preludes=['opaque.h'], globals='vp_ostream vp_cout; size_t vp_combine_calls, vp_combine_lo, vp_combine_hi, vp_file_opens, vp_file_writes, vp_summary_calls; const void *vp_file_arg, *vp_file_name, *vp_combine_vec; _Bool vp_g_decision; struct mc_result vp_combined;',
         defines=['VP_NMAX=1048576'], props=['C20', 'C12', 'C03'],
         trusted=['printing (operator<< on std::cout), std::ofstream, chkpt.serialize and multi_channel_summary are stubs with ghost logs: the text they produce is not modelled']),
    dict(name='c05_mc_result', functions=['mc_result_serialize', 'mc_result_ctor1'], specs=['c05_mc_result'], harness_sections=['c05_mc_result'], entry='h_c05_mc_result', enforce=None,
         structs=[dict(prelude='stream.h'), dict(cls='mc_result')], globals='T nondet_T(void); size_t nondet_size_t(void);', loop_contracts=False, props=['C05', 'C03'],
         trusted=['iostream contract of vp/prelude/stream.h (digits -> bits is libstdc++\'s)']),
    dict(name='c05_vegas_chkpt', functions=['vegas_chkpt_serialize', 'vegas_chkpt_ctor1'], specs=['c05_vegas_chkpt'], harness_sections=['c05_vegas_chkpt'], entry='h_c05_vegas_chkpt', enforce=None,
         structs=[dict(prelude='stream.h')] + _ST_VCHK + [dict(prelude='stream_stubs.h')], preludes=['opaque.h'], globals='T nondet_T(void); size_t nondet_size_t(void);', loop_contracts=False,
         props=['C05', 'C03', 'C19'], trusted=['iostream contract of vp/prelude/stream.h', 'nested objects (base checkpoint with its results, the grid) are single tokens in this lemma']),
    dict(name='c05_multi_channel_chkpt', functions=['multi_channel_chkpt_serialize', 'multi_channel_chkpt_ctor1'], specs=['c05_multi_channel_chkpt'], harness_sections=['c05_multi_channel_chkpt'],
         entry='h_c05_multi_channel_chkpt', enforce=None, bounded=True, cbmc_flags=['--unwind', '8', '--unwinding-assertions'],
         structs=[dict(prelude='stream.h')] + _ST_MCHK + [dict(prelude='stream_stubs.h')], preludes=['opaque.h'], globals='T nondet_T(void); size_t nondet_size_t(void);', loop_contracts=False,
         props=['C05', 'C03', 'C19'], trusted=['iostream contract of vp/prelude/stream.h', 'BOUNDED: at most 6 channels (loops unwound with unwinding assertions)']),
    dict(name='c05_vegas_pdf', functions=['vegas_pdf_serialize', 'vegas_pdf_ctor1'], specs=['c05_vegas_pdf'], harness_sections=['c05_vegas_pdf'],
         entry='h_c05_vegas_pdf', enforce=None, bounded=True, cbmc_flags=['--unwind', '14', '--unwinding-assertions'],
         structs=[dict(prelude='stream.h'), dict(cls='vegas_pdf', cls_targs=['double'])], globals='T nondet_T(void); size_t nondet_size_t(void);', loop_contracts=False,
         props=['C05', 'C03'], trusted=['iostream contract of vp/prelude/stream.h', 'BOUNDED: at most 3 dimensions x 3 bins (loops unwound with unwinding assertions)']),
    dict(name='c05_vegas_result', functions=['vegas_result_serialize', 'vegas_result_ctor1', 'vegas_pdf_bins', 'vegas_pdf_dimensions'], specs=['c05_vegas_result'], harness_sections=['c05_vegas_result'],
         entry='h_c05_vegas_result', enforce=None, bounded=True, cbmc_flags=['--unwind', '11', '--unwinding-assertions'],
         structs=[dict(prelude='stream.h')] + _ST_VCHK[:6], preludes=['opaque.h'], globals='T nondet_T(void); size_t nondet_size_t(void);', loop_contracts=False,
         props=['C05', 'C03', 'C19'], trusted=['iostream contract of vp/prelude/stream.h', 'nested plain_result and grid are single tokens in this lemma', 'BOUNDED: at most 3 x 3 adjustment data (loops unwound with unwinding assertions)']),
    dict(name='c05_multi_channel_result', functions=['multi_channel_result_serialize', 'multi_channel_result_ctor1'], specs=['c05_multi_channel_result'], harness_sections=['c05_multi_channel_result'],
         entry='h_c05_multi_channel_result', enforce=None, bounded=True, cbmc_flags=['--unwind', '8', '--unwinding-assertions'],
         structs=[dict(prelude='stream.h')] + _ST_MCHK[:5], preludes=['opaque.h'], globals='T nondet_T(void); size_t nondet_size_t(void);', loop_contracts=False,
         props=['C05', 'C03', 'C19'], trusted=['iostream contract of vp/prelude/stream.h', 'nested plain_result is a single token in this lemma', 'BOUNDED: at most 6 channels (loops unwound with unwinding assertions)']),
    dict(name='c05_rng_chkpt', functions=['rng_chkpt_plain_result_serialize', 'rng_chkpt_plain_result_ctor1'], specs=['c05_rng_chkpt'], harness_sections=['c05_rng_chkpt'],
         entry='h_c05_rng_chkpt', enforce=None, bounded=True, cbmc_flags=['--unwind', '9', '--unwinding-assertions'],
         structs=[dict(prelude='opaque.h'), dict(prelude='stream.h'), dict(prelude='stream_str.h')] + _ST_CHK + [dict(prelude='stream_stubs.h')], preludes=['opaque.h'], globals='T nondet_T(void); size_t nondet_size_t(void);', loop_contracts=False,
         props=['C05', 'C03'], trusted=['iostream contract of vp/prelude/stream.h', 'operator<< / operator>> of a standard random number engine round-trip its state when the text starts at the read position ([rand.req.eng]; no whitespace skipping assumed); an engine is one token', 'BOUNDED: at most 6 results, 7 generators (loops unwound with unwinding assertions)']),
    dict(name='c05_distribution_parameters', functions=['distribution_parameters_serialize', 'distribution_parameters_ctor1'], specs=['c05_distribution_parameters'], harness_sections=['c05_distribution_parameters'],
         entry='h_c05_distribution_parameters', enforce=None, no_sof=True,
         structs=[dict(prelude='opaque.h'), dict(prelude='stream.h'), dict(prelude='stream_str.h'), dict(cls='distribution_parameters')], globals='T nondet_T(void); size_t nondet_size_t(void);', loop_contracts=False,
         props=['C05', 'C03'], trusted=['iostream contract of vp/prelude/stream.h and stream_str.h (operator<<(string) verbatim, std::ws skips all whitespace, getline reads one line)', 'a name is a ghost identity with the attributes "empty" and "leading blank" (uninterpreted); names containing a newline are excluded by C05']),
    dict(name='c05_distribution_result', functions=['distribution_result_serialize', 'distribution_result_ctor1', 'distribution_parameters_bins_x', 'distribution_parameters_bins_y'], specs=['c05_distribution_result'], harness_sections=['c05_distribution_result'],
         entry='h_c05_distribution_result', enforce=None, bounded=True, cbmc_flags=['--unwind', '8', '--unwinding-assertions'],
         structs=[dict(prelude='stream.h')] + _ST_VCHK[:3], preludes=['opaque.h'], globals='T nondet_T(void); size_t nondet_size_t(void);', loop_contracts=False,
         props=['C05', 'C03'], trusted=['iostream contract of vp/prelude/stream.h', 'nested parameters and per-bin results are tokens in this lemma', 'BOUNDED: at most 3 x 2 bins (loops unwound with unwinding assertions)']),
    dict(name='c05_plain_result', functions=['plain_result_serialize', 'plain_result_ctor1'], specs=['c05_plain_result'], harness_sections=['c05_plain_result'],
         entry='h_c05_plain_result', enforce=None, bounded=True, cbmc_flags=['--unwind', '7', '--unwinding-assertions'],
         structs=[dict(prelude='stream.h')] + _ST_VCHK[:4], preludes=['opaque.h'], globals='T nondet_T(void); size_t nondet_size_t(void);', loop_contracts=False,
         props=['C05', 'C03'], trusted=['iostream contract of vp/prelude/stream.h', 'the integral\'s mc_result and each distribution_result are tokens in this lemma', 'BOUNDED: at most 5 distributions (loops unwound with unwinding assertions)']),
    dict(name='c05_chkpt_base', functions=['chkpt_plain_result_serialize', 'chkpt_plain_result_ctor1'], specs=['c05_chkpt_base'], harness_sections=['c05_chkpt_base'],
         entry='h_c05_chkpt_base', enforce=None, bounded=True, cbmc_flags=['--unwind', '12', '--unwinding-assertions'],
         structs=[dict(prelude='opaque.h'), dict(prelude='stream.h'), dict(prelude='stream_str.h')] + _ST_CHK[:6], preludes=['opaque.h'], globals='T nondet_T(void); size_t nondet_size_t(void);', loop_contracts=False,
         props=['C05', 'C03'], trusted=['iostream contract of vp/prelude/stream.h and stream_str.h (peek / ignore(max, newline) skip one line)', 'each result is one token in this lemma', 'BOUNDED: at most 4 results (loops unwound with unwinding assertions)']),
    dict(name='c13_distribution_combination', functions=['hep_distribution_accumulator', 'distribution_result_ctor2', 'plain_result_distributions', 'distribution_result_results', 'distribution_result_parameters',
                                                           'plain_result_ctor6', 'mc_result_ctor5', 'mc_result_calls', 'mc_result_non_zero_calls', 'mc_result_finite_calls', 'mc_result_sum', 'mc_result_sum_of_squares'],
         specs=['c13_distribution_combination'], harness_sections=['c13_distribution_combination'], entry='h_c13_distribution_combination', enforce=None, bounded=True,
         cbmc_flags=['--unwind', '4', '--unwinding-assertions'], loop_contracts=False,
         structs=_ST_VCHK[:4], preludes=['opaque.h'], props=['C13', 'C11'],
         trusted=['the accumulator functor is a logged stub (its contract: job weighted_with_variance)', 'BOUNDED: ONE shape (2 results x 2 distributions with 1 and 2 bins), loops unwound with unwinding assertions']),
    dict(name='summary_index_safety', functions=['multi_channel_summary', 'chkpt_multi_channel_result_results', 'multi_channel_weight_info_channels', 'multi_channel_weight_info_weights',
                                                   'multi_channel_weight_info_calls', 'multi_channel_weight_info_minimal_weight_count'],
         specs=['multi_channel_summary'], harness_sections=['multi_channel_summary'], entry='h_multi_channel_summary', enforce=None, loop_contracts=False,
         cbmc_flags=['--unwind', '13', '--unwinding-assertions'],
         structs=_ST_MCHK + [dict(unit='chkpt', cls='multi_channel_weight_info')], preludes=['opaque.h'], defines=['VP_NMAX=1048576'], props=['C20'],
         globals='typedef struct vp_ostream { size_t writes; } vp_ostream;',
         trusted=['ASSUMED contract of the multi_channel_weight_info constructor (one entry per channel in each vector, 1 <= minimal_weight_count <= channels)',
                  'multi_channel_max_difference is any value; make_list_of_ranges / minimal_weight_channels (string-valued operand) are not evaluated in the C text',
                  'loops of the summary have constant bounds (<= 11): unwound completely, checked by unwinding assertions (not a bounded stand-in)']),
    dict(name='max_difference', functions=['multi_channel_max_difference', 'multi_channel_result_adjustment_data'], entry='h_multi_channel_max_difference', enforce='multi_channel_max_difference',
         structs=_ST_MCHK[:5], preludes=['opaque.h'], defines=['VP_NMAX=1048576'], props=['C20'], trusted=['libm fmax / fabs as in vp/prelude/vp.h']),
    dict(name='c04_allreduce_layout', functions=['allreduce_result', 'distribution_result_ctor2', 'plain_result_distributions', 'distribution_result_results', 'distribution_result_parameters',
                                                   'plain_result_ctor6', 'mc_result_ctor5', 'mc_result_non_zero_calls', 'mc_result_finite_calls', 'mc_result_sum', 'mc_result_sum_of_squares'],
         specs=['c04_allreduce_layout'], harness_sections=['c04_allreduce_layout'], entry='h_c04_allreduce_layout', enforce=None, bounded=True,
         cbmc_flags=['--unwind', '4', '--unwinding-assertions'], loop_contracts=False,
         structs=_ST_VCHK[:4], preludes=['opaque.h'], props=['C04'],
         trusted=['MPI_Allreduce modelled for one rank (identity) and logged; with P ranks the element-wise sum keeps positions (paper step)', 'BOUNDED: ONE shape (one additional datum, 2 distributions with 1 and 2 bins), loops unwound with unwinding assertions']),
    dict(name='c11_result_scaling', functions=['accumulator_dist_result', 'distribution_result_ctor2', 'plain_result_ctor6', 'mc_result_ctor5',
                                                 'distribution_parameters_bins_x', 'distribution_parameters_bins_y', 'distribution_parameters_bin_size_x', 'distribution_parameters_bin_size_y'],
         specs=['c11_result_scaling'], harness_sections=['c11_result_scaling'], entry='h_c11_result_scaling', enforce=None, bounded=True, af=['accumulator_dist_result'],
         cbmc_flags=['--unwind', '4', '--unwinding-assertions'], loop_contracts=False,
         structs=_ST_DIST[:3] + [dict(cls='mc_result', vec=True), dict(cls='distribution_result', vec=True), dict(cls='plain_result')], preludes=['opaque.h'], props=['C11', 'C02'],
         trusted=['multiplication / division abstract (uninterpreted) with the proven single-operation facts', 'BOUNDED: ONE shape (two distributions with 2 bins each), loops unwound with unwinding assertions']),
    dict(name='refine_weights', functions=['multi_channel_refine_weights'], entry='h_multi_channel_refine_weights',
         enforce='multi_channel_refine_weights', replace=['vp_pow'], af=['multi_channel_refine_weights'], globals='T vp_g_s1, vp_g_s2; _Bool vp_g_nodata;',
         defines=['VP_NMAX=1048576'], props=['C08'], thorough_reals=['float'],
         assumptions=['libm pow: assumed contract (vp/prelude/vp.h)', 'hypotheses of C08: the normalisation sums do not overflow; with information the second sum is positive and finite'])
]

# ---- B2 jobs ---------------------------------------------------------------------------------------
B2JOBS = [
    dict(name='c16_tiling', mode='int', functions=['discard_before', 'discard_after'],
         fragments=[f for f in sorted(FRAGMENTS) if f.startswith('mpi_')], property_file='specs/C16.smt2', props=['C16', 'C04'],
         assumptions=['world size and rank are non-negative int values with rank < world (MPI_Comm_rank/MPI_Comm_size contract)']),
]

B2JOBS.append(dict(name='int_lemmas', mode='int', functions=[], property_file='specs/int_lemmas.smt2',
                   props=['C07', 'C17', 'C01', 'C10', 'C02']))

B2JOBS.append(dict(name='c01_measure', mode='real', functions=[], property_file='specs/C01.smt2', props=['C01'],
                   assumptions=['B2r: floating-point arithmetic treated as real arithmetic (C01 is stated "to rounding")', 'these are lemmas over the formulas pinned by the contracts C01.vegas_point / C07.weight / C01.mc_weight, not over code']))
_MCR = {'mc_result': [('size_t', 'calls_'), ('size_t', 'non_zero_calls_'), ('size_t', 'finite_calls_'), ('T', 'sum_'), ('T', 'sum_of_squares_')]}
B2JOBS.append(dict(name='result_formulas', mode='real', functions=['mc_result_value', 'mc_result_variance', 'mc_result_error'], structs=_MCR,
                   property_file='specs/C13.smt2', props=['C02', 'C13'],
                   assumptions=['B2r: floating-point arithmetic treated as real arithmetic for the formula identities (rounding is C14\'s subject)']))

B2JOBS.append(dict(name='create_result_formulas', mode='real', functions=['create_result'],
                   out_struct={'create_result': ('mc_result_ctor5', [('size_t', 'calls_'), ('size_t', 'non_zero_calls_'), ('size_t', 'finite_calls_'), ('T', 'sum_'), ('T', 'sum_of_squares_')])},
                   property_file='specs/C13_create.smt2', props=['C13', 'C12'],
                   assumptions=['B2r: floating-point arithmetic treated as real arithmetic for the formula identities; the integer sub-expressions keep their no-wrap side conditions']))

NATIVEJOBS = []

REPLAYS = {'c16_tiling': dict(cpp='c16', link_fragments=[f for f in sorted(FRAGMENTS) if f.startswith('mpi_')]),
           'invoke_nodist': 'invoke', 'invoke_dist': 'invoke',
           'usage_enumeration': 'usage', 'refine_weights': 'refine_weights', 'result_formulas': 'result', 'create_result_formulas': 'create_result', 'callback_decision': 'callback', 'weighted_with_variance': 'callback', 'chkpt_rollback': 'chkpt', 'chkpt_add': 'chkpt', 'chkpt_generator': 'chkpt',
           'discrete_ctor': 'discrete', 'discrete_call': 'discrete', 'discrete_select': 'discrete', 'partial_sum': 'discrete',
           'c05_': dict(cpp='c05', no_inputs_needed=True)}
