"""Which functions are extracted (RECIPES / FRAGMENTS) and which verification jobs exist."""

PROPS = ['C%02d' % i for i in range(1, 21)]


# ---- handlers for collaborator idioms (G14) ---------------------------------------------
def _h_integrand_call(em, n, args, dst):
    # integrand.function()(point[, projector])  ->  vp_integrand_call(&point[, &projector])
    al = [em.arg(a, None) for a in args[1:]]
    return 'vp_integrand_call%s(%s)' % ('_proj' if len(al) == 2 else '', ', '.join(al))


_ACC_OPTS = dict(operator_calls={('vpinst_Fn', 'operator()'): _h_integrand_call})

RECIPES = {
    'accumulate': dict(name='accumulate'),
    'multi_channel_refine_weights': dict(name='multi_channel_refine_weights', must_fire={'G8': 2, 'G11': 1}),
    'vegas_icdf': dict(name='vegas_icdf'),
    'vegas_refine_pdf': dict(name='vegas_refine_pdf'),
    'vegas_pdf_ctor2': dict(name='vegas_pdf', cls='vegas_pdf', sel='(std::size_t, std::size_t)', self='vegas_pdf', ctor=True),
    'vegas_pdf_bin_left': dict(name='bin_left', cls='vegas_pdf', self='vegas_pdf'),
    'vegas_pdf_set_bin_left': dict(name='set_bin_left', cls='vegas_pdf', self='vegas_pdf'),
    'vegas_pdf_bins': dict(name='bins', cls='vegas_pdf', self='vegas_pdf'),
    'vegas_pdf_dimensions': dict(name='dimensions', cls='vegas_pdf', self='vegas_pdf'),
    'discard_before': dict(name='discard_before'),
    'discard_after': dict(name='discard_after'),
    'accumulator_nodist_invoke': dict(name='invoke', cls='accumulator', cls_targs=['double', '0'], self='accumulator_nodist', opts=_ACC_OPTS),
    'accumulator_nodist_result': dict(name='result', cls='accumulator', cls_targs=['double', '0'], self='accumulator_nodist'),
    'accumulator_dist_invoke': dict(name='invoke', cls='accumulator', cls_targs=['double', '1'], self='accumulator_dist', opts=_ACC_OPTS),
    'accumulator_dist_result': dict(name='result', cls='accumulator', cls_targs=['double', '1'], self='accumulator_dist'),
    'accumulator_dist_ctor1': dict(name='accumulator', cls='accumulator', cls_targs=['double', '1'], self='accumulator_dist', ctor=True),
    'accumulator_dist_add_to_1d_distribution': dict(name='add_to_1d_distribution', cls='accumulator', self='accumulator_dist'),
    'accumulator_dist_add_to_2d_distribution': dict(name='add_to_2d_distribution', cls='accumulator', self='accumulator_dist'),
    'projector_ctor2': dict(name='projector', cls='projector', self='projector', ctor=True, sel='accumulator'),
    'projector_add3': dict(name='add', cls='projector', self='projector', sel='(std::size_t, double, double)'),
    'projector_add4': dict(name='add', cls='projector', self='projector', sel='(std::size_t, double, double, double)'),
    'mc_result_value': dict(name='value', cls='mc_result', self='mc_result'),
    'mc_result_variance': dict(name='variance', cls='mc_result', self='mc_result'),
    'mc_result_error': dict(name='error', cls='mc_result', self='mc_result'),
    'mc_result_ctor5': dict(name='mc_result', cls='mc_result', self='mc_result', ctor=True, sel='(std::size_t, std::size_t, std::size_t, double, double)'),
    'create_result': dict(name='create_result'),
}

# ---- fragments: single expressions inside the MPI drivers -----------------------------------
_SUBP = [('size_t', 'calls'), ('int', 'rank'), ('int', 'world')]
_DISP = [('size_t', 'calls'), ('int', 'rank'), ('int', 'world'), ('size_t', 'usage')]
_DIS2 = [('size_t', 'calls'), ('int', 'rank'), ('int', 'world'), ('size_t', 'usage'), ('size_t', 'sub_calls')]
FRAGMENTS = {}
for _d in ('mpi_plain', 'mpi_vegas', 'mpi_multi_channel'):
    FRAGMENTS[_d + '_sub_calls'] = dict(unit='mpi', fn=_d, var='sub_calls', params=_SUBP, ret='size_t')
    FRAGMENTS[_d + '_discard1'] = dict(unit='mpi', fn=_d, call=('discard', 0, 0), count=2, params=_DISP, ret='size_t')
    FRAGMENTS[_d + '_discard2'] = dict(unit='mpi', fn=_d, call=('discard', 1, 0), count=2, params=_DIS2, ret='size_t')

# ---- B1 jobs ------------------------------------------------------------------------------------
_GHOSTS = ('size_t vp_invocations, vp_weight_calls, vp_acc_calls; T vp_last_f, vp_last_w, vp_last_acc; '
           'T vp_w_s0, vp_w_s1, vp_w_s2; size_t vp_w_nz, vp_w_fc;')
_ST_ACC = [dict(cls='mc_point'), dict(cls='accumulator', cls_targs=['double', '0'], cname='accumulator_nodist')]
_ST_DIST = [dict(cls='mc_point'), dict(cls='distribution_parameters', vec=True),
            dict(cls='accumulator', cls_targs=['double', '1'], cname='accumulator_dist'), dict(cls='projector'),
            dict(cls='integrand', cname='integrand', opaque=True)]
_T_USER = 'user integrand and virtual point.weight() are contract stubs returning any value of T (NaN, +-inf, +-0 included)'

JOBS = [
    dict(name='accumulate', functions=['accumulate'], entry='h_accumulate', enforce='accumulate', solvers=['cvc5', 'cadical'],
         structs=_ST_ACC, late_preludes=['stubs.h'], globals=_GHOSTS, props=['C14', 'C02'], thorough_reals=['float']),
    dict(name='invoke_nodist', functions=['accumulator_nodist_invoke', 'accumulate'], entry='h_accumulator_nodist_invoke', af=['accumulator_nodist_invoke'],
         enforce='accumulator_nodist_invoke', replace=['accumulate'],
         structs=_ST_ACC + [dict(cls='integrand', cname='integrand', opaque=True)], late_preludes=['stubs.h'], globals=_GHOSTS,
         props=['C02', 'C06', 'C17', 'C01'], thorough_reals=['float'], trusted=[_T_USER]),
    dict(name='invoke_dist', functions=['accumulator_dist_invoke', 'accumulate', 'projector_ctor2'], entry='h_accumulator_dist_invoke', af=['accumulator_dist_invoke'],
         enforce='accumulator_dist_invoke', replace=['accumulate'],
         structs=_ST_DIST, preludes=['opaque.h'], late_preludes=['stubs.h'], globals=_GHOSTS,
         defines=['VP_WITH_PROJECTOR', 'VP_NMAX=65536'], props=['C02', 'C06', 'C17', 'C01'], thorough_reals=['float'],
         trusted=[_T_USER, 'the integrand may change only bin slots through the projector (proved for add_to_1d/2d_distribution in jobs dist1d/dist2d)']),
    dict(name='refine_weights', functions=['multi_channel_refine_weights'], entry='h_multi_channel_refine_weights',
         enforce='multi_channel_refine_weights', replace=['vp_pow'], real='double', defines=['VP_NMAX=4096'],
         props=[]),
]

# ---- B2 jobs ---------------------------------------------------------------------------------------
B2JOBS = [
    dict(name='c16_tiling', mode='int', functions=['discard_before', 'discard_after'],
         fragments=[f for f in sorted(FRAGMENTS)], property_file='specs/C16.smt2', props=['C16', 'C04'],
         assumptions=['world size and rank are non-negative int values with rank < world (MPI_Comm_rank/MPI_Comm_size contract)']),
]

NATIVEJOBS = []

REPLAYS = {'c16_tiling': dict(cpp='c16', link_fragments=sorted(FRAGMENTS)),
           'invoke_nodist': 'invoke', 'invoke_dist': 'invoke'}
