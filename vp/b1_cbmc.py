#!/usr/bin/env python3
"""Back end B1: goto-cc -> goto-instrument --dfcc -> cbmc (solver portfolio)."""
import json, os, re, subprocess, time, threading, signal

MEM_KB = int(os.environ.get('VP_MEM_KB', str(12 * 1024 * 1024)))

CHECK_FLAGS = ['--bounds-check', '--pointer-check', '--conversion-check', '--div-by-zero-check',
               '--unsigned-overflow-check', '--pointer-overflow-check', '--signed-overflow-check']


def _run(cmd, timeout, cwd=None, holder=None):
    t0 = time.time()

    def pre():
        import resource
        resource.setrlimit(resource.RLIMIT_AS, (MEM_KB * 1024, MEM_KB * 1024))
        os.setsid()
    p = subprocess.Popen(cmd, stdout=subprocess.PIPE, stderr=subprocess.PIPE, text=True, cwd=cwd, preexec_fn=pre)
    if holder is not None:
        holder['_proc'] = p
    try:
        out, err = p.communicate(timeout=timeout)
        to = False
    except subprocess.TimeoutExpired:
        try:
            os.killpg(p.pid, signal.SIGKILL)
        except Exception:
            pass
        out, err = p.communicate()
        to = True
    return dict(rc=p.returncode, out=out, err=err, timeout=to, secs=time.time() - t0, cmd=' '.join(cmd))


class B1Result:
    def __init__(self):
        self.status = 'undecided'     # proved | failed | undecided | error
        self.props = []               # dicts: id, description, status, file, line, trace
        self.solver = None
        self.secs = 0.0
        self.cmds = []
        self.log = ''
        self.notes = []


def compile_goto(cfile, outdir, entry, defines, incs, suffix=''):
    gb = os.path.join(outdir, os.path.basename(cfile)[:-2] + suffix + '.gb')
    cmd = ['goto-cc', '-DVP_CBMC'] + ['-D' + d for d in defines] + ['-I' + i for i in incs] + ['--function', entry, cfile, '-o', gb]
    r = _run(cmd, 120)
    return gb, r


def instrument(gb, entry, enforce, replace, loop_contracts=True):
    out = gb[:-3] + '.i.gb'
    cmd = ['goto-instrument', '--dfcc', entry]
    if enforce:
        cmd += ['--enforce-contract', enforce]
    for g in replace:
        cmd += ['--replace-call-with-contract', g]
    if loop_contracts:
        cmd += ['--apply-loop-contracts']
    cmd += [gb, out]
    r = _run(cmd, 300)
    return out, r


def parse_json_out(txt):
    """cbmc --json-ui prints one JSON array"""
    try:
        arr = json.loads(txt)
    except Exception:
        # truncated output (timeout): no result
        return None
    res = dict(props=[], status=None, messages=[])
    for item in arr:
        if 'result' in item:
            res['props'] = item['result']
        if 'property' in item and 'status' in item:      # --stop-on-fail prints the failed property on its own
            res['props'].append(item)
        if 'cProverStatus' in item:
            res['status'] = item['cProverStatus']
        if 'messageText' in item:
            res['messages'].append(item['messageText'])
    return res


def run_cbmc(igb, solver, timeout, extra=(), trace=True, object_bits=12, checks=True, holder=None):
    cmd = ['cbmc', igb, '--json-ui', '--object-bits', str(object_bits)]
    if checks:
        cmd += CHECK_FLAGS
    if trace:
        cmd += ['--trace']
    if solver == 'cadical':
        cmd += ['--sat-solver', 'cadical']
    elif solver == 'cvc5':
        cmd += ['--cvc5']
    elif solver == 'kissat':
        cmd += ['--external-sat-solver', 'kissat']
    elif solver == 'minisat':
        pass
    else:
        raise ValueError(solver)
    cmd += list(extra)
    r = _run(cmd, timeout, holder=holder)
    r['parsed'] = parse_json_out(r['out']) if not r['timeout'] else None
    r['solver'] = solver
    return r


def portfolio(members, timeout, need_all=False, object_bits=12, kill=True):
    """members: dicts(label, igb, solver, extra, sof).  Runs all in parallel.  Finished when a full member
    gives a definitive answer (quick) / all full members answered (thorough), or a stop-on-fail member
    reports a failure."""
    results = {}
    lock = threading.Lock()
    done = threading.Event()
    full = [m for m in members if not m.get('sof')]

    def work(m):
        r = run_cbmc(m['igb'], m['solver'], timeout, extra=m.get('extra', ()), object_bits=object_bits, holder=m)
        with lock:
            results[m['label']] = r
            ok = r['parsed'] is not None and r['parsed']['status'] in ('success', 'failure')
            if m.get('sof'):
                if ok and r['parsed']['status'] == 'failure':
                    done.set()
            elif ok and not need_all:
                done.set()
            if all(x['label'] in results for x in (full if need_all else members)):
                done.set()
            if need_all and all(x['label'] in results for x in full):
                done.set()
    ths = [threading.Thread(target=work, args=(m,), daemon=True) for m in members]
    for t in ths:
        t.start()
    done.wait()
    if kill:
        for m in members:
            kill_children_matching(m['igb'])
        for t in ths:
            t.join(timeout=10)
    else:
        # several portfolios share one goto binary (split mode): stop only this portfolio's own processes
        for m in members:
            pr = m.get('_proc')
            if pr is not None and pr.poll() is None:
                try:
                    os.killpg(pr.pid, signal.SIGKILL)
                except Exception:
                    pass
        for t in ths:
            t.join(timeout=10)
    return results


def kill_children_matching(igb):
    """kill cbmc processes working on this goto binary (never use pkill -f: it matches its caller)"""
    try:
        for pid in os.listdir('/proc'):
            if not pid.isdigit():
                continue
            try:
                cl = open('/proc/%s/cmdline' % pid, 'rb').read().split(b'\0')
            except Exception:
                continue
            if cl and os.path.basename(cl[0].decode(errors='ignore')) in ('cbmc', 'cvc5', 'cadical', 'kissat') \
                    and any(igb.encode() == a for a in cl):
                try:
                    os.kill(int(pid), signal.SIGKILL)
                except Exception:
                    pass
    except Exception:
        pass
    # cvc5 children of killed cbmc processes get SIGPIPE/EOF and exit on their own


def list_properties(igb, object_bits=12, checks=True):
    cmd = ['cbmc', igb, '--show-properties', '--json-ui', '--object-bits', str(object_bits)] + (CHECK_FLAGS if checks else [])
    r = _run(cmd, 300)
    try:
        for it in json.loads(r['out']):
            if 'properties' in it:
                return it['properties']
    except Exception:
        pass
    return None


CONTRACT_LEVEL = re.compile(r'postcondition|loop_invariant|precondition|assertion|loop_decreases|loop_step|loop_assigns')


def split_run(igb, solvers, timeout, workers=6, object_bits=12, extra=(), log=None, support_timeout=None, failfast=False):
    """Every contract-level property on its own (first solver to answer wins); the support properties grouped by
    function, a group that no solver decides is bisected until single properties remain.
    Returns (props: list of dicts like cbmc's result entries + solver/secs, notes)."""
    import concurrent.futures, threading as th
    props = list_properties(igb, object_bits)
    notes = []
    if props is None:
        return None, ['could not list properties']
    hard = [p for p in props if CONTRACT_LEVEL.search(p['name']) and 'builtin-library' not in p.get('sourceLocation', {}).get('file', '')]
    hard_ids = set(id(p) for p in hard)
    rest = [p for p in props if id(p) not in hard_ids]
    groups = {}
    for p in rest:
        groups.setdefault(p['name'].split('.')[0], []).append(p)
    out = []
    lock = th.Lock()
    st = support_timeout or max(60, timeout // 2)

    def run_group(group, to):
        # one solver at a time (first the preferred one): twice as many groups run concurrently
        for s in solvers:
            m = dict(label=s, igb=igb, solver=s, extra=list(extra) + [x for p in group for x in ('--property', p['name'])])
            rs = portfolio([m], to, need_all=False, object_bits=object_bits, kill=False)
            r = rs.get(s)
            pz = r['parsed'] if r else None
            if pz is not None and pz['status'] in ('success', 'failure') and 'ignoring' not in ' '.join(pz['messages']):
                return (s, r, pz)
        return None

    ex = concurrent.futures.ThreadPoolExecutor(max_workers=workers)
    pending = []

    stop = th.Event()

    def task(group, to, depth):
        if failfast and stop.is_set():
            # a failing obligation has been found already (quick tier): the remaining ones are not needed for the verdict
            with lock:
                for p in group:
                    out.append(dict(property=p['name'], description=p.get('description', ''), sourceLocation=p.get('sourceLocation', {}), status='UNKNOWN', solver='', secs=0))
            return
        best = run_group(group, to)
        if best is None:
            if len(group) > 1 and depth < 12:
                h = len(group) // 2
                with lock:
                    pending.append(ex.submit(task, group[:h], to, depth + 1))
                    pending.append(ex.submit(task, group[h:], to, depth + 1))
                return
            with lock:
                for p in group:
                    out.append(dict(property=p['name'], description=p.get('description', ''), sourceLocation=p.get('sourceLocation', {}), status='UNKNOWN', solver='', secs=to))
                notes.append('%s: no solver answered within %ds' % (group[0]['name'] if len(group) == 1 else '%d support properties' % len(group), to))
            return
        s, r, pz = best
        got = dict((x['property'], x) for x in pz['props'])
        if failfast and pz['status'] == 'failure' and any(str(got.get(p['name'], {}).get('status', '')).upper() in ('FAILURE', 'FAILED') and 'VP_CANARY' not in (p.get('description', '') + got.get(p['name'], {}).get('description', '')) and failfast(dict(got.get(p['name'], {}), property=p['name'], sourceLocation=got.get(p['name'], {}).get('sourceLocation') or p.get('sourceLocation', {}), description=got.get(p['name'], {}).get('description') or p.get('description', ''))) for p in group):
            if not stop.is_set():
                notes.append('quick tier: a failing obligation was found; obligations not yet started were skipped')
            stop.set()
        with lock:
            for p in group:
                x = got.get(p['name'])
                if x is None:
                    out.append(dict(property=p['name'], description=p.get('description', ''), sourceLocation=p.get('sourceLocation', {}), status='UNKNOWN', solver=s, secs=r['secs']))
                else:
                    x = dict(x)
                    x['solver'] = s
                    x['secs'] = r['secs']
                    out.append(x)

    with lock:
        for p in hard:
            pending.append(ex.submit(task, [p], timeout, 99))
        for name, g in sorted(groups.items()):
            pending.append(ex.submit(task, g, st, 0))
    while True:
        with lock:
            cur = list(pending)
        for f in cur:
            f.result()
        with lock:
            if len(pending) == len(cur):
                break
    ex.shutdown()
    return out, notes
