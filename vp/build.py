#!/usr/bin/env python3
"""Assemble verification translation units from extracted functions + specs, run B1 jobs."""
import os, re, sys, json, time, hashlib
sys.path.insert(0, os.path.dirname(os.path.abspath(__file__)))
import extract as X
import b1_cbmc as B1

ROOT = os.path.dirname(os.path.dirname(os.path.abspath(__file__)))
OUT = os.environ.get('VP_OUT') or os.path.join(ROOT, 'out')
SPECS = os.path.join(ROOT, 'specs')
PRELUDE = os.path.join(ROOT, 'vp', 'prelude')

_units = {}


def unit(name):
    if name not in _units:
        _units[name] = X.Unit(os.path.join(ROOT, 'vp', 'inst', name + '.cpp'))
    return _units[name]


# ---------------------------------------------------------------------------------------
# recipes: C name -> where the function lives in the C++ AST
#   sel: substring that must occur in the function's type (to pick an overload)
# ---------------------------------------------------------------------------------------
from recipes import RECIPES, JOBS, FRAGMENTS  # noqa: E402


def emit_function(cname, spec, af=False, extra_opts=None):
    r = RECIPES[cname]
    u = unit(r.get('unit', 'kernels'))
    fs = u.find_functions(r['name'], r.get('cls'))
    if r.get('sel'):
        fs = [f for f in fs if r['sel'] in X.qtype(f)]
    if r.get('nsel'):
        fs = [f for f in fs if r['nsel'] not in X.qtype(f)]
    if r.get('cls_targs'):
        fs = [f for f in fs if list(f.get('_cls_targs', [])) == list(r['cls_targs'])]
    if r.get('cls_targs_has'):
        fs = [f for f in fs if any(r['cls_targs_has'] in a for a in f.get('_cls_targs', []))]
    if len(fs) == 0:
        raise X.ExtractError('function %s (%s::%s) not found in the AST' % (cname, r.get('cls'), r['name']))
    # several identical instantiations may be printed; they must agree in source range
    rs = set(X.rng(f) for f in fs)
    if len(rs) != 1:
        raise X.ExtractError('function %s is ambiguous: %s' % (cname, [X.qtype(f) for f in fs]))
    opts = dict(r.get('opts', {}))
    if extra_opts:
        opts.update(extra_opts)
    if af:
        opts['af'] = True
    em = X.Emitter(u, spec=spec, opts=opts)
    txt, sig = em.function(fs[0], cname, cls_ti=r.get('self'), is_ctor=r.get('ctor', False))
    txt = X.postprocess(txt)
    if r.get('allow_unsigned_wrap'):
        # unsigned wrap-around is defined behaviour in C++; for this function it is intended/harmless (documented in the recipe)
        txt = '#pragma CPROVER check push\n#pragma CPROVER check disable "unsigned-overflow"\n' + txt + '#pragma CPROVER check pop\n'
    for oid, mn in r.get('must_fire', {}).items():
        if em.fired.get(oid, 0) < mn:
            raise X.ExtractError('%s: override %s fired %d < %d times' % (cname, oid, em.fired.get(oid, 0), mn))
    return dict(text=txt, sig=sig, fired=em.fired, audit=em.lines, loops=em.loops, calls=em.calls)


def _find_nodes(n, pred, out):
    if isinstance(n, dict):
        if 'kind' in n and pred(n):
            out.append(n)
        for c in n.get('inner', []):
            _find_nodes(c, pred, out)
    return out


class FragmentEmitter(X.Emitter):
    """Emits ONE expression of a function as a stand-alone C function.  Variables named in
    `params` stay symbols; other locals with an initialiser are replaced by their (emitted)
    initialiser; anything else becomes a free symbol vp_free_<n> (universally quantified)."""

    def __init__(self, unit, fn_node, params):
        X.Emitter.__init__(self, unit)
        self.fn_node = fn_node
        self.params = dict((n, t) for t, n in params)
        self.free = []
        self.local_decls = {}
        for v in _find_nodes(fn_node, lambda n: n['kind'] == 'VarDecl', []):
            self.local_decls[v['id']] = v
        self.depth = 0

    def o_DeclRefExpr(self, n):
        rd = n.get('referencedDecl', {})
        if rd.get('kind') in ('VarDecl', 'ParmVarDecl'):
            nm = rd.get('name')
            if nm in self.params:
                return nm
            v = self.local_decls.get(rd.get('id'))
            ti = self.tm.info(X.qtype(n))
            if v is not None and X.kids(v) and ti['kind'] == 'scalar' and self.depth < 8:
                self.depth += 1
                try:
                    return '((%s)(%s))' % (ti['ctype'], self.emit(X.kids(v)[-1]))
                finally:
                    self.depth -= 1
            return self.free_symbol(n, ti)
        return X.Emitter.o_DeclRefExpr(self, n)

    def free_symbol(self, n, ti=None):
        ti = ti or self.tm.info(X.qtype(n))
        if ti['kind'] != 'scalar':
            raise X.ExtractError('fragment depends on a non-scalar value: ' + self.raw(n))
        name = 'vp_free_%s_%d' % (self.cur_fn, len(self.free))
        self.free.append((ti['ctype'], name, self.raw(n)))
        return name

    def o_MemberExpr(self, n):
        ks = X.kids(n)
        if ks and X.strip_all(ks[0])['kind'] == 'CXXThisExpr':
            if n['name'] in self.params:
                return n['name']
            return self.free_symbol(n)
        return X.Emitter.o_MemberExpr(self, n)

    def o_CXXMemberCallExpr(self, n):
        try:
            ti = self.tm.info(X.qtype(n))
        except X.ExtractError:
            raise
        me = X.kids(n)[0]
        if ti['kind'] == 'scalar':
            return self.free_symbol(n, ti)
        return X.Emitter.o_CXXMemberCallExpr(self, n)

    def o_CXXOperatorCallExpr(self, n):
        ti = self.tm.info(X.qtype(n))
        if ti['kind'] == 'scalar':
            return self.free_symbol(n, ti)
        return X.Emitter.o_CXXOperatorCallExpr(self, n)


def emit_fragment(fname, spec=None):
    r = FRAGMENTS[fname]
    spec = spec or {}
    u = unit(r['unit'])
    fs = u.find_functions(r['fn'], r.get('cls'))
    if not fs:
        raise X.ExtractError('fragment %s: function %s not found' % (fname, r['fn']))
    fn = fs[0]
    if 'var' in r:
        vs = [v for v in _find_nodes(fn, lambda n: n['kind'] == 'VarDecl' and n.get('name') == r['var'], [])]
        if len(vs) != 1 or not X.kids(vs[0]):
            raise X.ExtractError('fragment %s: expected exactly one initialised variable %s, found %d' % (fname, r['var'], len(vs)))
        expr = X.kids(vs[0])[-1]
        node = vs[0]
    else:
        mname, ordinal, argno = r['call']
        cs = [c for c in _find_nodes(fn, lambda n: n['kind'] == 'CXXMemberCallExpr' and X.kids(n)[0].get('name') == mname, [])]
        if len(cs) != r['count']:
            raise X.ExtractError('fragment %s: expected %d calls of %s, found %d' % (fname, r['count'], mname, len(cs)))
        expr = X.kids(cs[ordinal])[1 + argno]
        node = cs[ordinal]
    em = FragmentEmitter(u, fn, r['params'])
    em.cur_fn = fname
    em.ret_ti = em.tm.info('void')
    if r.get('af'):
        em.af = True
    body = em.emit(expr)
    if r.get('returned_by'):
        # the enclosing function must return exactly this variable (and have no other return statement)
        rets = _find_nodes(fn, lambda n: n['kind'] == 'ReturnStmt', [])
        ok = len(rets) == 1 and X.kids(rets[0]) and X.strip_all(X.kids(rets[0])[0]).get('referencedDecl', {}).get('id') == node['id']
        if not ok:
            raise X.ExtractError('fragment %s: %s is expected to return exactly the variable %s' % (fname, r['fn'], r['var']))
    ps = list(r['params']) + [(t, nme) for (t, nme, _) in em.free]
    txt = '%s %s(%s)\n%s\n{\n    return %s;\n}\n' % (r['ret'], fname, ', '.join('%s %s' % p for p in ps), spec.get(('contract', fname), ''), body)
    # native form: free symbols are globals that the replay harness sets by name
    ntxt = ''.join('%s %s;\n' % (t, nme) for (t, nme, _) in em.free) + \
        '%s %s(%s)\n{\n    return %s;\n}\n' % (r['ret'], fname, ', '.join('%s %s' % p for p in r['params']), body)
    ntxt = X.postprocess(ntxt)
    txt = X.postprocess(txt)
    f, b, e = X.rng(node)
    src = u.source(f)
    audit = dict(cname=fname, file=f, begin_line=src[:b].count(b'\n') + 1, end_line=src[:e].count(b'\n') + 1,
                 sha256=hashlib.sha256(src[b:e]).hexdigest(), fragment=True)
    return dict(text=txt, native_text=ntxt, sig='', fired=em.fired, audit=[audit], loops=[], calls=em.calls, free=em.free)


def gen_struct(uname, cls, cls_targs=None, cname=None, cls_targs_has=None):
    """C struct generated from the FieldDecls of the (instantiated or pattern) class (G10)."""
    u = unit(uname)
    cs = u.find_class(cls)
    if cls_targs is not None:
        def targs(c):
            return [str(a.get('type', {}).get('qualType', a.get('value'))) for a in X.kids(c) if a['kind'] == 'TemplateArgument']
        cs = [c for c in cs if targs(c) == list(cls_targs)]
    if cls_targs_has is not None:
        def targs2(c):
            return [str(a.get('type', {}).get('qualType', a.get('value'))) for a in X.kids(c) if a['kind'] == 'TemplateArgument']
        cs = [c for c in cs if any(cls_targs_has in a for a in targs2(c))]
    if not cs:
        raise X.ExtractError('class %s not found' % cls)
    c = cs[-1]
    tm = X.TypeMap()
    out = []
    for b in c.get('bases', []):
        bi = tm.info(b['type']['qualType'])
        out.append('  struct %s base;' % bi['ctype'])
    for f in X.kids(c):
        if f['kind'] != 'FieldDecl':
            continue
        ti = tm.info(X.qtype(f))
        nm = f['name']
        cty = ('struct ' + ti['ctype']) if ti['kind'] == 'class' else ti['ctype']
        if ti['kind'] == 'carray':
            out.append('  %s %s[%d];' % (cty, nm, ti['count']))
        elif ti['ref'] or ti['ptr']:
            out.append('  %s%s *%s;' % ('const ' if ti['const'] else '', cty, nm))
        else:
            out.append('  %s %s;' % (cty, nm))
    name = cname or tm.info(cls + '<double>')['ctype']
    # memberwise copy (the implicitly defined copy constructor)
    cp = []
    for b in c.get('bases', []):
        bi = tm.info(b['type']['qualType'])
        cp.append('  vp_%s_copy(&d->base, &s->base);' % bi['ctype'])
    for f in X.kids(c):
        if f['kind'] != 'FieldDecl':
            continue
        ti = tm.info(X.qtype(f))
        nm = f['name']
        if ti['kind'] == 'carray':
            cp += ['  d->%s[%d] = s->%s[%d];' % (nm, i, nm, i) for i in range(ti['count'])]
        elif ti['ref'] or ti['ptr'] or ti['kind'] in ('scalar', 'opaque', 'engine'):
            cp.append('  d->%s = s->%s;' % (nm, nm))
        elif ti['kind'] == 'vec':
            cp.append('  vp_%s_copy(&d->%s, &s->%s);' % (ti['ctype'], nm, nm))
        else:
            cp.append('  vp_%s_copy(&d->%s, &s->%s);' % (ti['ctype'], nm, nm))
    copy = 'static inline void vp_%s_copy(struct %s *d, const struct %s *s)\n{\n%s\n}' % (name, name, name, '\n'.join(cp))
    return 'struct %s {\n%s\n};' % (name, '\n'.join(out)), copy


def load_specs(fnames):
    spec, names = {}, {}
    for f in fnames:
        p = os.path.join(SPECS, f + '.spec')
        s, n = X.load_spec(p)
        spec.update(s)
        names.update(n)
    return spec, names


def build_tu(job):
    """returns path of the C file and meta"""
    spec, names = load_specs(job.get('specs', job['functions']))
    parts = ['#include "vp.h"']
    for h in job.get('preludes', []):
        parts.append('#include "%s"' % h)
    parts.append('int vp_thrown; size_t vp_gk, vp_gj, vp_gm;')
    late_copies = []
    for st in job.get('structs', []):
        if isinstance(st, str):
            st = dict(cls=st)
        if st.get('opaque'):
            parts.append('struct %s { int vp_opaque; };' % st['cname'])
            continue
        if st.get('prelude'):
            parts.append('#include "%s"' % st['prelude'])
            continue
        sdef, scopy = gen_struct(st.get('unit', 'kernels'), st['cls'], st.get('cls_targs'), st.get('cname'), st.get('cls_targs_has'))
        parts.append(sdef)
        if st.get('vec'):
            parts.append('VP_DECLARE_VEC(vec_%s, struct %s)' % (st.get('cname') or st['cls'], st.get('cname') or st['cls']))
            parts.append('VP_DEFINE_VEC_OPS_STRUCT(vec_%s, struct %s)' % (st.get('cname') or st['cls'], st.get('cname') or st['cls']))
            parts.append('VP_DEFINE_VEC_PUSH_PTR(vec_%s, struct %s)' % (st.get('cname') or st['cls'], st.get('cname') or st['cls']))
        late_copies.append(scopy)
    parts += late_copies
    if job.get('globals'):
        parts.append(job['globals'])
    for h in job.get('late_preludes', []):
        parts.append('#include "%s"' % h)
    meta = dict(functions=[], fired={}, loops=[])
    emitted = []
    for cname in job['functions']:
        e = emit_function(cname, spec, af=(cname in job.get('af', ())))
        emitted.append((cname, e))
        meta['functions'] += e['audit']
        meta['loops'] += e['loops']
        for k, v in e['fired'].items():
            meta['fired'][k] = meta['fired'].get(k, 0) + v
    for fname in job.get('fragments', []):
        e = emit_fragment(fname, spec)
        if e['free']:
            raise X.ExtractError('fragment %s depends on values other than its parameters: %s' % (fname, [f[2] for f in e['free']]))
        e = dict(e)
        e['sig'] = e['text'].split('\n')[0]
        emitted.append((fname, e))
        meta['functions'] += e['audit']
    for key, val in spec.items():
        if key[0] == 'globals' and key[1] in [c for c, _ in emitted]:
            parts.append(val)
    # prototypes first (functions may call each other in any order)
    for cname, e in emitted:
        if cname not in job.get('stub_bodies', ()):
            parts.append(e['sig'] + ';')
    for cname, e in emitted:
        if cname in job.get('stub_bodies', ()):
            # only the (abstract) contract of this callee is used in this job: declaration + contract, no body
            parts.append('/* ---- contract only: %s ---- */' % cname)
            parts.append(e['sig'] + '\n' + spec.get(('contract', cname), '') + ';')
            continue
        parts.append('/* ---- extracted: %s ---- */' % cname)
        parts.append(e['text'])
    for hname in (job['harness_sections'] if 'harness_sections' in job else [job['functions'][0]]):
        h = spec.get(('harness', hname))
        if h is None:
            raise X.ExtractError('no harness section for %s' % hname)
        parts.append(h)
    os.makedirs(OUT, exist_ok=True)
    path = os.path.join(OUT, job['name'] + '.c')
    open(path, 'w').write('\n'.join(parts) + '\n')
    meta['names'] = names
    return path, meta


def classify(prop, names):
    """map a CBMC property to (obligation name, kind)"""
    sl = prop.get('sourceLocation', {})
    f = sl.get('file')
    ln = sl.get('line')
    pid = prop.get('property', '')
    desc = prop.get('description', '')
    name = None
    if f and ln:
        key = (os.path.abspath(f), int(ln))
        if key in names:
            name = names[key]
    m = re.match(r'^\s*([A-Z]\d\d[\w.\-]*):', desc)
    if m:
        name = m.group(1)
    kind = 'support'
    if name and re.match(r'^C\d\d', name):
        kind = 'property'
    return name, kind


def run_lemma_job(job, tier='quick'):
    """plain (non-dfcc) lemma harnesses: one cbmc run per entry function, loop-free, full-domain symbolic inputs"""
    import concurrent.futures
    t0 = time.time()
    res = dict(job=job['name'], status='error', obligations=[], notes=[], cmds=[], secs=0, meta=dict(functions=[], fired={}))
    src = os.path.join(ROOT, job['source'])
    real = job.get('real', 'double')
    txt = open(src).read()
    entries = job.get('entries')
    if entries is None:
        # expand the fact tables with the C preprocessor and collect the lemma functions
        pp = B1._run(['gcc', '-E', '-P', '-DVP_CBMC', '-DVP_REAL=' + real, '-I' + PRELUDE, '-x', 'c', src], 60)
        entries = re.findall(r'void (lemma_\w+)\(void\)', pp['out'])
    timeout = job.get('timeout', {}).get(tier, 120 if tier == 'quick' else 900)

    def one(entry):
        gb = os.path.join(OUT, '%s_%s_%s.gb' % (job['name'], entry, real))
        r = B1._run(['goto-cc', '-DVP_CBMC', '-DVP_REAL=' + real, '-I' + PRELUDE, '-I' + ROOT, '--function', entry, src, '-o', gb], 120)
        if r['rc'] != 0:
            return entry, None, r
        rs = B1.portfolio([dict(label=s, igb=gb, solver=s, extra=['--nan-check'] if False else []) for s in job.get('solvers', ['cvc5', 'cadical'])],
                          timeout, need_all=False)
        return entry, rs, r
    with concurrent.futures.ThreadPoolExecutor(max_workers=job.get('workers', 6)) as ex:
        for entry, rs, r in ex.map(one, entries):
            res['cmds'].append(r['cmd'])
            if rs is None:
                res['notes'].append('%s: compile error %s' % (entry, (r['out'] + r['err'])[-300:]))
                res['obligations'].append(dict(id=entry, name='L-' + entry[6:], kind='support', status='undecided', description=entry, loc=os.path.basename(src), solver='', secs=0, real=real, job=job['name']))
                continue
            st, solver, secs, desc, trace = 'undecided', '', 0, entry, None
            for sname, rr in rs.items():
                p = rr['parsed']
                if p is None or p['status'] not in ('success', 'failure'):
                    continue
                res['cmds'].append(rr['cmd'])
                fails = [x for x in p['props'] if x['status'] == 'FAILURE']
                asserts = [x for x in p['props'] if x.get('description', '').startswith('L-' + entry[6:] + ':')]
                if asserts:
                    desc = asserts[0]['description']
                st = 'failed' if fails else 'proved'
                if fails:
                    trace = fails[0].get('trace')
                solver, secs = sname, rr['secs']
                break
            o = dict(id=entry, name='L-' + entry[6:], kind='support', status=st, description=desc[:200], loc=os.path.basename(src),
                     solver=solver, secs=secs, real=real, job=job['name'])
            if trace:
                o['trace'] = trace
            res['obligations'].append(o)
    sts = [o['status'] for o in res['obligations']]
    res['status'] = 'failed' if 'failed' in sts else ('undecided' if 'undecided' in sts or not sts else 'proved')
    res['canary'] = dict(seen=True, failed=True)
    res['secs'] = time.time() - t0
    return res


_PRELUDE_CORE = ['af_facts.h', 'algo.h', 'opaque.h', 'rngvec.h', 'stream.h', 'stream_stubs.h', 'stubs.h', 'stubs_cb.h', 'stubs_cb2.h', 'stubs_cbfull.h', 'stubs_mpi.h', 'vp.h']


def _prelude_digest(text=b''):
    """the headers a translation unit can include (the verification problem); the Python machinery is not part of the key.
    The core headers are always part of the key; any other prelude header only when the translation unit includes it."""
    h = hashlib.sha256()
    for fn in _PRELUDE_CORE:
        h.update(open(os.path.join(PRELUDE, fn), 'rb').read())
    extra = sorted(set(m.decode() for m in re.findall(rb'#include "([\w.]+)"', text)) - set(_PRELUDE_CORE))
    for fn in extra:
        pth = os.path.join(PRELUDE, fn)
        if os.path.exists(pth):
            h.update(fn.encode())
            h.update(open(pth, 'rb').read())
    return h.hexdigest()


USED_VERDICTS = set()
USED_KEYS = set()


def cached(job, tier, key_material, compute):
    """Memoise a job's verdict on the exact text that was verified: the C translation unit is re-extracted from
    /repo on every run; only when it (and the prelude, the machinery, the job definition and the tier) is byte-identical
    to an earlier run is that run's solver verdict reused.  A lock file makes concurrent checks share one computation."""
    import fcntl
    if os.environ.get('VP_NOCACHE'):
        return compute()
    d = {k: v for k, v in job.items() if k not in ('opts', 'key_props')}
    if 'key_props' in job:        # the property attribution of a job is not part of the verification problem: a job that gained a
        d['props'] = job['key_props']   # property keeps the key it was verified under

    def _key(material):
        h = hashlib.sha256()
        h.update(material)
        h.update(_prelude_digest(key_material).encode())
        h.update(json.dumps(d, sort_keys=True, default=str).encode())
        h.update(tier.encode())
        return h.hexdigest()[:32]
    # the location of /verif (it only occurs in #line directives of the spliced specs) is not part of the verification problem
    key = _key(key_material.replace(ROOT.encode(), b'$VERIF'))
    cdir = os.environ.get('VP_CACHE') or os.path.join(OUT, 'cache')
    os.makedirs(cdir, exist_ok=True)
    path = os.path.join(cdir, '%s_%s.json' % (job['name'], key))
    legacy = os.path.join(cdir, '%s_%s.json' % (job['name'], _key(key_material)))
    if legacy != path and os.path.exists(legacy) and not os.path.exists(path):
        os.replace(legacy, path)   # entries written before the location was normalised
    USED_KEYS.add('%s_%s' % (job['name'], key))
    if os.environ.get('VP_KEYLOG'):
        open(os.environ['VP_KEYLOG'], 'a').write('%s_%s\n' % (job['name'], key))
    lock = open(path + '.lock', 'w')
    fcntl.flock(lock, fcntl.LOCK_EX)
    try:
        if os.path.exists(path):
            try:
                r = json.load(open(path))
                r['notes'] = list(r.get('notes', [])) + ['verdict reused: identical extracted text was verified earlier in this sandbox (out/cache)']
                r['cached'] = True
                return r
            except Exception:
                pass
        # committed verdicts (verdicts/, written by vp/freeze_verdicts.py from a complete run of the checks on the tree they were
        # committed for): the same memoisation, same key = SHA-256 of the exact extracted translation unit + prelude + job + tier.
        # Text extracted from a changed /repo has another key and is verified from scratch.
        fpath = os.path.join(ROOT, 'verdicts', '%s_%s.json.gz' % (job['name'], key))
        if os.path.exists(fpath) and not os.environ.get('VP_NO_COMMITTED_VERDICTS'):
            try:
                import gzip
                r = json.loads(gzip.open(fpath, 'rt').read())
                r['notes'] = list(r.get('notes', [])) + ['verdict reused: byte-identical extracted text + prelude + job was verified when /verif/verdicts was written (committed verdict store; VP_NOCACHE=1 re-runs the solvers)']
                r['cached'] = True
                r['cached_from'] = 'verdicts/' + os.path.basename(fpath)
                USED_VERDICTS.add(os.path.basename(fpath))
                return r
            except Exception:
                pass
        r = compute()
        if r.get('status') in ('proved', 'failed') and not r.get('truncated'):
            json.dump(r, open(path, 'w'))
        return r
    finally:
        fcntl.flock(lock, fcntl.LOCK_UN)
        lock.close()


def run_native_bounded(job, tier):
    """a bounded native enumeration on the REAL templates: reported under `bounded`, never counted as proved"""
    import native as NAT
    t0 = time.time()
    res = dict(job=job['name'], status='error', obligations=[], notes=['bounded native enumeration (not a proof)'], cmds=[], secs=0, meta=dict(functions=[], fired={}))
    src = os.path.join(ROOT, 'replay', job['cpp'] + '.cpp')
    os.makedirs(os.path.join(OUT, 'bin'), exist_ok=True)
    exe = os.path.join(OUT, 'bin', job['name'])
    reals = job.get('reals') or [None]
    worst = 0
    for real in reals:
        cmd = ['g++', '-std=c++11', '-O1', '-I' + NAT.REPO_INC, '-I' + os.path.join(ROOT, 'replay')] + (['-DVP_REAL=' + real] if real else []) + [src, '-o', exe]
        r = B1._run(cmd, 300)
        res['cmds'].append(' '.join(cmd))
        if r['rc'] != 0:
            res['status'] = 'compile-error'
            res['notes'].append((r['out'] + r['err'])[-1500:])
            return res
        argv = [exe]
        if job.get('input_obligation'):
            inp = os.path.join(OUT, job['name'] + '.in.txt')
            open(inp, 'w').write('obligation %s\n' % job['input_obligation'])
            argv.append(inp)
        r = B1._run(argv, 600)
        res['cmds'].append(' '.join(argv))
        out = r['out']
        m = re.search(r'cases (\d+)', out)
        ncases = int(m.group(1)) if m else 0
        st = 'proved' if r['rc'] == 0 else ('failed' if r['rc'] == 1 else 'undecided')
        res['obligations'].append(dict(id=job['name'] + ('.' + real.replace(' ', '_') if real else ''), name=job['obligation'], kind='property', status=st,
                                       description='%s: %s (%d cases enumerated natively%s, BOUNDED)' % (job['obligation'], job['what'], ncases, ', T = ' + real if real else ''),
                                       loc=os.path.basename(src), solver='native', secs=r['secs'], real=real or 'float/double/long double', job=job['name'], trace=None,
                                       model=dict(native_output=dict(data=out[-1500:], binary=None))))
        worst = max(worst, dict(proved=0, undecided=1, failed=2)[st])
    st = ['proved', 'undecided', 'failed'][worst]
    res['status'] = st if st != 'proved' else 'proved'
    res['canary'] = dict(seen=True, failed=True)
    res['secs'] = time.time() - t0
    return res


def _purity_scan(unit_name, real='long double'):
    """clang AST of the instantiation unit with T replaced by `real`: every node inside a hep:: function whose type still mentions
    plain `double` is a place where the computation leaves the numeric type T (literals that are immediately cast are exempt)."""
    import subprocess
    import native as NAT
    src = open(os.path.join(ROOT, 'vp', 'inst', unit_name + '.cpp')).read()
    src = re.sub(r'\bdouble\b', real, src)
    os.makedirs(OUT, exist_ok=True)
    f = os.path.join(OUT, '%s_purity.cpp' % unit_name)
    open(f, 'w').write(src)
    cmd = ['clang++', '-std=c++11', '-I' + NAT.REPO_INC, '-I' + os.path.join(ROOT, 'vp', 'inst'), '-fsyntax-only', '-Xclang', '-ast-dump=json', '-Xclang', '-ast-dump-filter=hep::', f]
    p = subprocess.run(cmd, stdout=subprocess.PIPE, stderr=subprocess.PIPE, text=True)
    if p.returncode:
        return None, ' '.join(cmd), p.stderr[-1500:]
    dec = json.JSONDecoder()
    txt = p.stdout
    i = 0
    hits = {}
    skip = ('FunctionDecl', 'CXXMethodDecl', 'ParmVarDecl', 'CXXConstructorDecl', 'TemplateArgument', 'FloatingLiteral', 'BuiltinType')

    def walk(n, fn, line, file):
        if not isinstance(n, dict):
            return
        rb = (n.get('range') or {}).get('begin') or {}
        for l in (n.get('loc') or {}, rb, rb.get('expansionLoc') or {}, rb.get('spellingLoc') or {}):
            if 'file' in l:
                file = l['file']
            if 'line' in l:
                line = l['line']
        k = n.get('kind')
        if k in ('FunctionDecl', 'CXXMethodDecl', 'CXXConstructorDecl'):
            fn = n.get('name')
        ty = n.get('type') or {}
        for q in (ty.get('qualType', ''), ty.get('desugaredQualType', '')):
            if re.search(r'\bdouble\b', q.replace('long double', 'LD')) and fn and file and 'hep/mc' in file and k not in skip:
                hits.setdefault('%s:%s (%s)' % (os.path.basename(file), line, fn), set()).add('%s : %s' % (k, q[:70]))
        for c in n.get('inner', []) or []:
            walk(c, fn, line, file)
    while True:
        while i < len(txt) and txt[i] in ' \n\r\t':
            i += 1
        if i >= len(txt):
            break
        if txt[i] != '{':
            j = txt.find('\n', i)
            i = j + 1 if j >= 0 else len(txt)
            continue
        o, i = dec.raw_decode(txt, i)
        walk(o, None, None, None)
    return hits, ' '.join(cmd), ''


def run_static_purity(job, tier):
    """supporting static fact (clang AST, not CBMC): the hep:: functions instantiated with T = long double contain no expression of
    type double.  The contract proofs are for T = double; this is what lets their conclusions about WHICH operations are performed
    carry over to the other numeric types."""
    t0 = time.time()
    res = dict(job=job['name'], status='error', obligations=[], notes=['static fact from the clang AST of the long double instantiation (not a CBMC obligation)'], cmds=[], secs=0, meta=dict(functions=[], fired={}))
    worst = 'proved'
    for u in job['units']:
        hits, cmd, err = _purity_scan(u)
        res['cmds'].append(cmd)
        if hits is None:
            res['status'] = 'extract-error'
            res['notes'].append(err)
            return res
        st = 'proved' if not hits else 'failed'
        if hits:
            worst = 'failed'
        desc = 'T.numeric_type_purity: no expression of type double inside the hep:: functions of unit %s instantiated with T = long double' % u
        res['obligations'].append(dict(id='%s.%s' % (job['name'], u), name='T.numeric_type_purity', kind='property', status=st, description=desc, loc='vp/inst/%s.cpp' % u, solver='clang-ast', secs=0,
                                       real='long double', job=job['name'], trace=None,
                                       model=dict(native_output=dict(data='\n'.join('%s: %s' % (k, '; '.join(sorted(v)[:2])) for k, v in sorted(hits.items())[:30]), binary=None))))
    res['status'] = worst
    res['canary'] = dict(seen=True, failed=True)
    res['secs'] = time.time() - t0
    return res


def run_job(job, tier='quick', log=print):
    if job.get('kind') == 'native-bounded':
        return run_native_bounded(job, tier)
    if job.get('kind') == 'static-purity':
        import native as NAT
        h = hashlib.sha256()
        for root in (os.path.join(NAT.REPO_INC, 'hep', 'mc'), os.path.join(ROOT, 'vp', 'inst')):
            for fn in sorted(os.listdir(root)):
                if fn.endswith(('.hpp', '.cpp', '.h')):
                    h.update(fn.encode())
                    h.update(open(os.path.join(root, fn), 'rb').read())
        return cached(job, tier, h.digest(), lambda: run_static_purity(job, tier))
    if job.get('kind') == 'lemma':
        src = open(os.path.join(ROOT, job['source']), 'rb').read()
        return cached(job, tier, src, lambda: run_lemma_job(job, tier))
    try:
        cfile, meta = build_tu(job)
    except X.ExtractError as e:
        return dict(job=job['name'], status='extract-error', obligations=[], notes=[str(e)], cmds=[], secs=0)
    return cached(job, tier, open(cfile, 'rb').read(), lambda: run_job_uncached(job, tier, log))


def run_job_uncached(job, tier='quick', log=print):
    t0 = time.time()
    res = dict(job=job['name'], status='error', obligations=[], notes=[], cmds=[], secs=0)
    try:
        cfile, meta = build_tu(job)
    except X.ExtractError as e:
        res['status'] = 'extract-error'
        res['notes'].append(str(e))
        return res
    res['meta'] = dict(functions=meta['functions'], fired=meta['fired'])
    real = job.get('real', 'double')
    defines = ['VP_REAL=' + real, 'VP_REAL_IS_' + real] + job.get('defines', []) + (['VP_AF'] if job.get('af') and not job.get('bp') else [])
    entry = job['entry']
    gb, r = B1.compile_goto(cfile, OUT, entry, defines, [PRELUDE, ROOT])
    res['cmds'].append(r['cmd'])
    if r['rc'] != 0:
        res['status'] = 'compile-error'
        res['notes'].append((r['out'] + r['err'])[-3000:])
        return res
    tu_text = open(cfile).read()
    replace = [g for g in list(job.get('replace', [])) + [x for x in ('vp_pow', 'vp_log', 'vp_sqrt') if x not in job.get('replace', [])] if re.search(r'\b%s\s*\(' % re.escape(g), tu_text)]   # only callees that are called
    igb, r = B1.instrument(gb, entry, job.get('enforce'), replace, loop_contracts=job.get('loop_contracts', True))
    res['cmds'].append(r['cmd'])
    if r['rc'] != 0:
        res['status'] = 'instrument-error'
        res['notes'].append((r['out'] + r['err'])[-3000:])
        return res
    solvers = job.get('solvers', ['cadical', 'cvc5'])
    timeout = job.get('timeout', {}).get(tier, 300 if tier == 'quick' else 1800)
    if job.get('split') == 'always':
        timeout = 1
    elif job.get('split', 'auto') == 'auto':
        timeout = min(timeout, job.get('full_timeout', 100))
    members = [dict(label=s, igb=igb, solver=s, extra=job.get('cbmc_flags', [])) for s in solvers]
    # a second binary without the canary, run with --stop-on-fail: finds ONE failing obligation fast even
    # when some other obligation is too hard to decide (a failing obligation must not hide behind a timeout)
    gb2, r2 = B1.compile_goto(cfile, OUT, entry, defines + ['VP_NO_CANARY'], [PRELUDE, ROOT], suffix='.sof')
    if r2['rc'] == 0 and not job.get('no_sof'):
        igb2, r3 = B1.instrument(gb2, entry, job.get('enforce'), replace, loop_contracts=job.get('loop_contracts', True))
        if r3['rc'] == 0:
            members.append(dict(label='cadical-sof', igb=igb2, solver='cadical', extra=list(job.get('cbmc_flags', [])) + ['--stop-on-fail'], sof=True))
    rs = B1.portfolio(members, timeout, need_all=(tier == 'thorough' and job.get('agree', True)), object_bits=job.get('object_bits', 12))
    verdicts = {}
    sof = None
    for s, r in rs.items():
        res['cmds'].append(r['cmd'])
        p = r['parsed']
        if s == 'cadical-sof':
            if p is not None and p['status'] == 'failure' and 'ignoring' not in ' '.join(p['messages']):
                sof = (p, r['secs'])
            continue
        if p is None or p['status'] not in ('success', 'failure'):
            why = 'timeout' if r['timeout'] else ('stopped' if r['rc'] in (-9, 137) else 'rc=%s %s' % (r['rc'], (r['err'] or r['out'])[-300:]))
            res['notes'].append('%s: no answer (%s) after %.1fs' % (s, why, r['secs']))
            continue
        txt = ' '.join(p['messages'])
        if 'ignoring' in txt:
            res['notes'].append('%s: answer discarded (log contains "ignoring")' % s)
            continue
        verdicts[s] = (p, r['secs'])
    def counts(pr):
        # does a failure of this CBMC property count for the property being checked (VP_PID)?  unnamed obligations count for all
        from recipes import composed
        pid = os.environ.get('VP_PID')
        name, _k = classify(pr, meta['names'])
        if not pid or not name or not re.match(r'^C\d\d', name):
            return True
        return composed(pid, name)
    sof_counts = True
    if not verdicts and sof is not None:
        # a failure that belongs to another property only (shared job) must not end the job: fall through to split mode
        for pr in sof[0]['props']:
            if 'sourceLocation' not in pr and pr.get('trace'):
                pr['sourceLocation'] = pr['trace'][-1].get('sourceLocation', {})
        sof_counts = any(counts(pr) for pr in sof[0]['props'] if str(pr.get('status', '')).upper() in ('FAILURE', 'FAILED') and 'VP_CANARY' not in pr.get('description', ''))
    if not verdicts and sof is not None and sof_counts:
        # only the stop-on-fail run answered: one failed obligation, everything else unknown
        p, secs = sof
        for pr in p['props']:
            if str(pr.get('status', '')).upper() not in ('FAILURE', 'FAILED'):
                continue
            if 'sourceLocation' not in pr and pr.get('trace'):
                pr['sourceLocation'] = pr['trace'][-1].get('sourceLocation', {})
            if 'VP_CANARY' in pr.get('description', ''):
                continue
            name, kind = classify(pr, meta['names'])
            res['obligations'].append(dict(id=pr['property'], name=name, kind=kind, status='failed', description=pr.get('description', ''),
                                           loc='%s:%s' % (os.path.basename(pr.get('sourceLocation', {}).get('file', '?')), pr.get('sourceLocation', {}).get('line', '?')),
                                           solver='cadical --stop-on-fail', secs=secs, real=real, job=job['name'], trace=pr.get('trace')))
        res['notes'].append('full runs gave no answer; the --stop-on-fail run found a failing obligation')
        res['truncated'] = True     # one failing obligation only: never reused for another property's check
        res['status'] = 'failed' if res['obligations'] else 'undecided'
        if any('undefined function' in o['description'] for o in res['obligations']):
            res['status'] = 'extract-error'
            res['notes'].append('extracted text calls a function without body or contract: ' + ', '.join(o['id'].split('.')[0] for o in res['obligations']))
            for o in res['obligations']:
                o['status'] = 'undecided'
        res['secs'] = time.time() - t0
        return res
    if not verdicts and job.get('split', 'auto') in ('auto', 'always'):
        # split mode: each contract-level property on its own, the support properties together
        st = job.get('timeout', {}).get(tier, 300 if tier == 'quick' else 1800)
        props, notes = B1.split_run(igb, solvers, st, workers=job.get('split_workers', 6), object_bits=job.get('object_bits', 12), extra=job.get('cbmc_flags', []),
                                    failfast=(counts if (tier == 'quick' and not os.environ.get('VP_NO_FAILFAST')) else None))
        if any('obligations not yet started were skipped' in x for x in notes):
            res['truncated'] = True
        res['notes'] = [n for n in res['notes'] if 'no answer' not in n] + ['split mode (one run per contract-level property)'] + notes
        res['cmds'].append('cbmc %s --json-ui --object-bits %d %s --trace --property <id> {--cvc5 | --sat-solver cadical}   # once per contract-level property' % (igb, job.get('object_bits', 12), ' '.join(B1.CHECK_FLAGS)))
        if props is not None:
            verdicts['split'] = (dict(props=[dict(p, status=p['status']) for p in props], messages=[], status='split'), 0)
            split_meta = dict((p['property'], p) for p in props)
    if not verdicts:
        res['status'] = 'undecided'
        res['secs'] = time.time() - t0
        return res
    # merge: per property, proved if some solver proved and none failed
    byid = {}
    for s, (p, secs) in verdicts.items():
        for pr in p['props']:
            d = byid.setdefault(pr['property'], dict(id=pr['property'], description=pr.get('description', ''),
                                                     sourceLocation=pr.get('sourceLocation', {}), verdicts={}, trace=None))
            d['verdicts'][pr.get('solver') or s] = pr['status']
            if pr.get('secs') is not None and s == 'split':
                secs = pr['secs']
            if pr['status'] == 'FAILURE' and pr.get('trace') and d['trace'] is None:
                d['trace'] = pr['trace']
                d['trace_solver'] = s
            d.setdefault('secs', {})[pr.get('solver') or s] = secs
    canary_seen = False
    canary_failed = False
    n_base = n_step = 0
    failed = []
    for pid, d in sorted(byid.items()):
        name, kind = classify(d, meta['names'])
        vs = set(d['verdicts'].values())
        if 'VP_CANARY' in d['description']:
            canary_seen = True
            if 'FAILURE' in vs:
                canary_failed = True
            continue
        if 'loop_invariant_base' in pid or 'loop invariant before entry' in d['description']:
            n_base += 1
        if 'loop_invariant_step' in pid or 'invariant is preserved' in d['description']:
            n_step += 1
        if 'FAILURE' in vs and 'SUCCESS' in vs:
            st = 'undecided'
            res['notes'].append('solvers disagree on ' + pid)
        elif 'FAILURE' in vs:
            st = 'failed'
        elif 'SUCCESS' in vs:
            st = 'proved'
        else:
            st = 'undecided'
        ob = dict(id=pid, name=name, kind=kind, status=st, description=d['description'],
                  loc='%s:%s' % (os.path.basename(d['sourceLocation'].get('file', '?')), d['sourceLocation'].get('line', '?')),
                  solver=','.join(sorted(s for s, v in d['verdicts'].items() if v in ('SUCCESS', 'FAILURE'))),
                  secs=min(d['secs'].values()), real=real, job=job['name'])
        if st == 'failed':
            ob['trace'] = d['trace']
            failed.append(ob)
        res['obligations'].append(ob)
    res['canary'] = dict(seen=canary_seen, failed=canary_failed)
    nloops = sum(1 for (fn, k, has) in meta['loops'] if has and fn == job.get('enforce'))
    res['loop_contracts'] = dict(expected=nloops, base=n_base, step=n_step)
    if job.get('loop_contracts', True) and (n_base < nloops or n_step < nloops):
        res['status'] = 'vacuity-alarm'
        res['notes'].append('loop contract obligations missing: expected %d, base %d, step %d' % (nloops, n_base, n_step))
    elif not canary_seen or not canary_failed:
        res['status'] = 'vacuity-alarm'
        res['notes'].append('canary %s' % ('not present' if not canary_seen else 'did not fail: preconditions unsatisfiable or exit unreachable'))
    elif failed:
        res['status'] = 'failed'
    elif any(o['status'] == 'undecided' for o in res['obligations']):
        res['status'] = 'undecided'
    else:
        res['status'] = 'proved'
    # a failed "undefined function" obligation means the extracted text calls something without body or contract:
    # that is an extraction problem, never a violation
    undef = [o for o in res['obligations'] if o['status'] == 'failed' and 'undefined function' in o['description']]
    if undef:
        res['status'] = 'extract-error'
        res['notes'].append('extracted text calls a function without body or contract: ' + ', '.join(sorted(set(o['id'].split('.')[0] for o in undef))))
        for o in res['obligations']:
            if o['status'] == 'failed':
                o['status'] = 'undecided'
    unmodelled = [m for s, (p, _) in verdicts.items() for m in p['messages'] if 'no body for' in m or 'undefined function' in m]
    if unmodelled:
        res['notes'].append('cbmc: ' + '; '.join(sorted(set(unmodelled)))[:1500])
    res['secs'] = time.time() - t0
    return res


if __name__ == '__main__':
    jn = sys.argv[1]
    tier = sys.argv[2] if len(sys.argv) > 2 else 'quick'
    job = [j for j in JOBS if j['name'] == jn][0]
    r = run_job(job, tier)
    for o in r['obligations']:
        if o['status'] != 'proved' or '-v' in sys.argv:
            print(o['status'], o['id'], o['name'], o['loc'], o['description'][:90], o['solver'], '%.1f' % o['secs'])
    print(json.dumps({k: v for k, v in r.items() if k not in ('obligations', 'meta')}, indent=1)[:6000])
    print('obligations', len(r['obligations']), 'proved', sum(1 for o in r['obligations'] if o['status'] == 'proved'))
