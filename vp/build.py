#!/usr/bin/env python3
"""Assemble verification translation units from extracted functions + specs, run B1 jobs."""
import os, re, sys, json, time, hashlib
sys.path.insert(0, os.path.dirname(os.path.abspath(__file__)))
import extract as X
import b1_cbmc as B1

ROOT = os.path.dirname(os.path.dirname(os.path.abspath(__file__)))
OUT = os.path.join(ROOT, 'out')
SPECS = os.path.join(ROOT, 'specs')
PRELUDE = os.path.join(ROOT, 'vp', 'prelude')

_units = {}


def unit(name):
    if name not in _units:
        _units[name] = X.Unit(os.path.join(ROOT, 'vp', 'inst', name + '.cpp'))
    return _units[name]


# ---------------------------------------------------------------------------------------
# recipes: C name -> where the function lives in the C++ AST
#   sel: substring that must occur in the function's type (to pick an overload)
# ---------------------------------------------------------------------------------------
from recipes import RECIPES, JOBS  # noqa: E402


def emit_function(cname, spec, af=False, extra_opts=None):
    r = RECIPES[cname]
    u = unit(r.get('unit', 'kernels'))
    fs = u.find_functions(r['name'], r.get('cls'))
    if r.get('sel'):
        fs = [f for f in fs if r['sel'] in X.qtype(f)]
    if r.get('nsel'):
        fs = [f for f in fs if r['nsel'] not in X.qtype(f)]
    if r.get('parent_targs'):
        pass
    if len(fs) == 0:
        raise X.ExtractError('function %s (%s::%s) not found in the AST' % (cname, r.get('cls'), r['name']))
    # several identical instantiations may be printed; they must agree in source range
    rs = set(X.rng(f) for f in fs)
    if len(rs) != 1:
        raise X.ExtractError('function %s is ambiguous: %s' % (cname, [X.qtype(f) for f in fs]))
    opts = dict(r.get('opts', {}))
    if extra_opts:
        opts.update(extra_opts)
    if af:
        opts['af'] = True
    em = X.Emitter(u, spec=spec, opts=opts)
    txt, sig = em.function(fs[0], cname, cls_ti=r.get('self'), is_ctor=r.get('ctor', False))
    txt = X.postprocess(txt)
    for oid, mn in r.get('must_fire', {}).items():
        if em.fired.get(oid, 0) < mn:
            raise X.ExtractError('%s: override %s fired %d < %d times' % (cname, oid, em.fired.get(oid, 0), mn))
    return dict(text=txt, sig=sig, fired=em.fired, audit=em.lines, loops=em.loops, calls=em.calls)


def load_specs(fnames):
    spec, names = {}, {}
    for f in fnames:
        p = os.path.join(SPECS, f + '.spec')
        s, n = X.load_spec(p)
        spec.update(s)
        names.update(n)
    return spec, names


def build_tu(job):
    """returns path of the C file and meta"""
    spec, names = load_specs(job.get('specs', job['functions']))
    parts = ['#include "vp.h"']
    for h in job.get('preludes', []):
        parts.append('#include "%s"' % h)
    parts.append('int vp_thrown; size_t vp_gk, vp_gj;')
    meta = dict(functions=[], fired={}, loops=[])
    emitted = []
    for cname in job['functions']:
        e = emit_function(cname, spec, af=(cname in job.get('af', ())))
        emitted.append((cname, e))
        meta['functions'] += e['audit']
        meta['loops'] += e['loops']
        for k, v in e['fired'].items():
            meta['fired'][k] = meta['fired'].get(k, 0) + v
    # prototypes first (functions may call each other in any order)
    for cname, e in emitted:
        parts.append(e['sig'] + ';')
    for cname, e in emitted:
        parts.append('/* ---- extracted: %s ---- */' % cname)
        parts.append(e['text'])
    for hname in job.get('harness_sections', [job['functions'][0]]):
        h = spec.get(('harness', hname))
        if h is None:
            raise X.ExtractError('no harness section for %s' % hname)
        parts.append(h)
    os.makedirs(OUT, exist_ok=True)
    path = os.path.join(OUT, job['name'] + '.c')
    open(path, 'w').write('\n'.join(parts) + '\n')
    meta['names'] = names
    return path, meta


def classify(prop, names):
    """map a CBMC property to (obligation name, kind)"""
    sl = prop.get('sourceLocation', {})
    f = sl.get('file')
    ln = sl.get('line')
    pid = prop.get('property', '')
    desc = prop.get('description', '')
    name = None
    if f and ln:
        key = (os.path.abspath(f), int(ln))
        if key in names:
            name = names[key]
    m = re.match(r'^\s*([A-Z]\d\d[\w.\-]*):', desc)
    if m:
        name = m.group(1)
    kind = 'support'
    if name and re.match(r'^C\d\d', name):
        kind = 'property'
    return name, kind


def run_job(job, tier='quick', log=print):
    t0 = time.time()
    res = dict(job=job['name'], status='error', obligations=[], notes=[], cmds=[], secs=0)
    try:
        cfile, meta = build_tu(job)
    except X.ExtractError as e:
        res['status'] = 'extract-error'
        res['notes'].append(str(e))
        return res
    res['meta'] = dict(functions=meta['functions'], fired=meta['fired'])
    real = job.get('real', 'double')
    defines = ['VP_REAL=' + real] + job.get('defines', [])
    entry = job['entry']
    gb, r = B1.compile_goto(cfile, OUT, entry, defines, [PRELUDE, ROOT])
    res['cmds'].append(r['cmd'])
    if r['rc'] != 0:
        res['status'] = 'compile-error'
        res['notes'].append((r['out'] + r['err'])[-3000:])
        return res
    igb, r = B1.instrument(gb, entry, job.get('enforce'), job.get('replace', []), loop_contracts=job.get('loop_contracts', True))
    res['cmds'].append(r['cmd'])
    if r['rc'] != 0:
        res['status'] = 'instrument-error'
        res['notes'].append((r['out'] + r['err'])[-3000:])
        return res
    solvers = job.get('solvers', ['cadical', 'cvc5'])
    timeout = job.get('timeout', {}).get(tier, 300 if tier == 'quick' else 1800)
    rs = B1.portfolio(igb, solvers, timeout, need_all=(tier == 'thorough' and job.get('agree', True)),
                      extra=job.get('cbmc_flags', []), object_bits=job.get('object_bits', 12))
    verdicts = {}
    for s, r in rs.items():
        res['cmds'].append(r['cmd'])
        p = r['parsed']
        if p is None or p['status'] not in ('success', 'failure'):
            why = 'timeout' if r['timeout'] else ('rc=%s %s' % (r['rc'], (r['err'] or r['out'])[-400:]))
            res['notes'].append('%s: no answer (%s) after %.1fs' % (s, why, r['secs']))
            continue
        txt = ' '.join(p['messages'])
        if 'ignoring' in txt:
            res['notes'].append('%s: answer discarded (log contains "ignoring")' % s)
            continue
        verdicts[s] = (p, r['secs'])
    if not verdicts:
        res['status'] = 'undecided'
        res['secs'] = time.time() - t0
        return res
    # merge: per property, proved if some solver proved and none failed
    byid = {}
    for s, (p, secs) in verdicts.items():
        for pr in p['props']:
            d = byid.setdefault(pr['property'], dict(id=pr['property'], description=pr.get('description', ''),
                                                     sourceLocation=pr.get('sourceLocation', {}), verdicts={}, trace=None))
            d['verdicts'][s] = pr['status']
            if pr['status'] == 'FAILURE' and pr.get('trace') and d['trace'] is None:
                d['trace'] = pr['trace']
                d['trace_solver'] = s
            d.setdefault('secs', {})[s] = secs
    canary_seen = False
    canary_failed = False
    n_base = n_step = 0
    failed = []
    for pid, d in sorted(byid.items()):
        name, kind = classify(d, meta['names'])
        vs = set(d['verdicts'].values())
        if 'VP_CANARY' in d['description']:
            canary_seen = True
            if 'FAILURE' in vs:
                canary_failed = True
            continue
        if 'loop_invariant_base' in pid or 'loop invariant before entry' in d['description']:
            n_base += 1
        if 'loop_invariant_step' in pid or 'invariant is preserved' in d['description']:
            n_step += 1
        if 'FAILURE' in vs and 'SUCCESS' in vs:
            st = 'undecided'
            res['notes'].append('solvers disagree on ' + pid)
        elif 'FAILURE' in vs:
            st = 'failed'
        elif 'SUCCESS' in vs:
            st = 'proved'
        else:
            st = 'undecided'
        ob = dict(id=pid, name=name, kind=kind, status=st, description=d['description'],
                  loc='%s:%s' % (os.path.basename(d['sourceLocation'].get('file', '?')), d['sourceLocation'].get('line', '?')),
                  solver=','.join(sorted(s for s, v in d['verdicts'].items() if v in ('SUCCESS', 'FAILURE'))),
                  secs=min(d['secs'].values()), real=real, job=job['name'])
        if st == 'failed':
            ob['trace'] = d['trace']
            failed.append(ob)
        res['obligations'].append(ob)
    res['canary'] = dict(seen=canary_seen, failed=canary_failed)
    nloops = sum(1 for (fn, k, has) in meta['loops'] if has and fn == job.get('enforce'))
    res['loop_contracts'] = dict(expected=nloops, base=n_base, step=n_step)
    if job.get('loop_contracts', True) and (n_base < nloops or n_step < nloops):
        res['status'] = 'vacuity-alarm'
        res['notes'].append('loop contract obligations missing: expected %d, base %d, step %d' % (nloops, n_base, n_step))
    elif not canary_seen or not canary_failed:
        res['status'] = 'vacuity-alarm'
        res['notes'].append('canary %s' % ('not present' if not canary_seen else 'did not fail: preconditions unsatisfiable or exit unreachable'))
    elif failed:
        res['status'] = 'failed'
    elif any(o['status'] == 'undecided' for o in res['obligations']):
        res['status'] = 'undecided'
    else:
        res['status'] = 'proved'
    unmodelled = [m for s, (p, _) in verdicts.items() for m in p['messages'] if 'no body for' in m or 'undefined function' in m]
    if unmodelled:
        res['notes'].append('cbmc: ' + '; '.join(sorted(set(unmodelled)))[:1500])
    res['secs'] = time.time() - t0
    return res


if __name__ == '__main__':
    jn = sys.argv[1]
    tier = sys.argv[2] if len(sys.argv) > 2 else 'quick'
    job = [j for j in JOBS if j['name'] == jn][0]
    r = run_job(job, tier)
    for o in r['obligations']:
        if o['status'] != 'proved' or '-v' in sys.argv:
            print(o['status'], o['id'], o['name'], o['loc'], o['description'][:90], o['solver'], '%.1f' % o['secs'])
    print(json.dumps({k: v for k, v in r.items() if k not in ('obligations', 'meta')}, indent=1)[:6000])
    print('obligations', len(r['obligations']), 'proved', sum(1 for o in r['obligations'] if o['status'] == 'proved'))
