#!/usr/bin/env python3
"""diagnostic: check each contract-level property of a job on its own (finds the hard ones)"""
import sys, subprocess, json, concurrent.futures, time, re
igb = sys.argv[1]; to = int(sys.argv[2]) if len(sys.argv) > 2 else 30
solver = sys.argv[3:] or ['--sat-solver', 'cadical']
out = subprocess.run(['cbmc', igb, '--show-properties', '--json-ui', '--object-bits', '12', '--bounds-check', '--pointer-check', '--conversion-check', '--div-by-zero-check', '--unsigned-overflow-check', '--pointer-overflow-check', '--signed-overflow-check'], stdout=subprocess.PIPE, text=True).stdout
props = []
for it in json.loads(out):
    if 'properties' in it:
        props = it['properties']
import os
pat = os.environ.get('DIAG_PAT', r'postcondition|loop_invariant|precondition|assertion|loop_decreases')
sel = [p for p in props if re.search(pat, p['name'])]
def run(p):
    t = time.time()
    try:
        r = subprocess.run(['cbmc', igb, '--object-bits', '12', '--bounds-check', '--pointer-check', '--conversion-check', '--div-by-zero-check', '--unsigned-overflow-check', '--pointer-overflow-check', '--signed-overflow-check', '--property', p['name']] + solver, stdout=subprocess.PIPE, stderr=subprocess.STDOUT, text=True, timeout=to)
        m = re.search(r'VERIFICATION (\w+)', r.stdout)
        v = m.group(1) if m else 'ERR'
    except subprocess.TimeoutExpired:
        v = 'TIMEOUT'
    return p, v, time.time() - t
with concurrent.futures.ThreadPoolExecutor(max_workers=14) as ex:
    for p, v, dt in ex.map(run, sel):
        print('%-9s %6.1fs %-55s %s:%s %s' % (v, dt, p['name'], p['sourceLocation'].get('file', '').split('/')[-1], p['sourceLocation'].get('line'), p['description'][:60]))
