#!/usr/bin/env python3
"""AST-guided extraction of hep-mc functions to C (DESIGN.md section 3.1).

emit(node) = the header's own bytes of the node's source range, with the ranges of its
children replaced by emit(child).  An override fires only for the AST node kinds / resolved
declarations listed in this file; every arithmetic expression, comparison, condition,
loop header, literal and the statement order are copied verbatim from /repo.

Anything this file does not know how to translate raises ExtractError (-> exit 2 of the
check, never a VIOLATION).
"""
import json, os, re, subprocess, sys, hashlib

REPO_INC = os.environ.get('VP_REPO_INC', '/repo/include')
HERE = os.path.dirname(os.path.abspath(__file__))


class ExtractError(Exception):
    pass


# ----------------------------------------------------------------------------------------
# AST loading
# ----------------------------------------------------------------------------------------

def _annotate_files(node, state):
    """clang's JSON dumper delta-encodes file names: a location carries 'file' only when it
    differs from the previously printed one.  Re-create the file for every location."""
    if isinstance(node, dict):
        if 'offset' in node and 'tokLen' in node:
            if 'file' in node:
                state[0] = node['file']
            node['_file'] = state[0]
        for v in node.values():
            if isinstance(v, (dict, list)):
                _annotate_files(v, state)
    elif isinstance(node, list):
        for v in node:
            _annotate_files(v, state)


class Unit:
    """One instantiation translation unit, dumped with -ast-dump-filter=hep::"""

    def __init__(self, inst_cpp, extra_flags=()):
        cmd = ['clang++', '-std=c++11', '-I' + REPO_INC, '-I' + os.path.join(HERE, 'inst'),
               '-fsyntax-only', '-Wno-everything',
               '-Xclang', '-ast-dump=json', '-Xclang', '-ast-dump-filter=hep::'] + list(extra_flags) + [inst_cpp]
        p = subprocess.run(cmd, stdout=subprocess.PIPE, stderr=subprocess.PIPE, text=True)
        if p.returncode != 0:
            raise ExtractError('clang failed on %s:\n%s' % (inst_cpp, p.stderr[-3000:]))
        self.cmd = ' '.join(cmd)
        s = p.stdout
        dec = json.JSONDecoder()
        i = 0
        self.docs = []
        n = len(s)
        while True:
            while i < n and s[i].isspace():
                i += 1
            if i >= n:
                break
            o, i = dec.raw_decode(s, i)
            _annotate_files(o, [None])
            self.docs.append(o)
        self.src = {}
        self.by_id = {}
        for d in self.docs:
            self._index(d)

    def _index(self, n):
        if isinstance(n, dict):
            if 'id' in n and 'kind' in n and ('inner' in n or n['id'] not in self.by_id):
                self.by_id[n['id']] = n
            for c in n.get('inner', []):
                self._index(c)

    def source(self, f):
        if f not in self.src:
            self.src[f] = open(f, 'rb').read()
        return self.src[f]

    def find_functions(self, name, cls=None, want_body=True):
        """All FunctionDecl/CXXMethodDecl/CXXConstructorDecl nodes called `name` (optionally
        members of class `cls`), that are instantiations (not the template pattern)."""
        res = []
        seen = set()

        def walk(n, in_cls, in_templ_pattern, targs=()):
            k = n.get('kind')
            if k in ('FunctionDecl', 'CXXMethodDecl', 'CXXConstructorDecl') and n.get('name') == name:
                if (cls is None or in_cls == cls) and not in_templ_pattern:
                    has_body = any(c.get('kind') == 'CompoundStmt' for c in n.get('inner', []))
                    if (has_body or not want_body) and n['id'] not in seen:
                        seen.add(n['id'])
                        n['_cls_targs'] = list(targs)
                        res.append(n)
            for c in n.get('inner', []):
                if not isinstance(c, dict) or 'kind' not in c:
                    continue
                ck = c['kind']
                nc = in_cls
                ntp = in_templ_pattern
                nta = targs
                if ck in ('ClassTemplateSpecializationDecl',):
                    nta = tuple(str(a.get('type', {}).get('qualType', a.get('value'))) for a in c.get('inner', []) if isinstance(a, dict) and a.get('kind') == 'TemplateArgument')
                if ck in ('CXXRecordDecl', 'ClassTemplateSpecializationDecl', 'ClassTemplatePartialSpecializationDecl'):
                    nc = c.get('name')
                    if k == 'ClassTemplateDecl' and ck == 'CXXRecordDecl':
                        ntp = True  # the pattern of a class template
                    if ck == 'ClassTemplatePartialSpecializationDecl':
                        ntp = True
                    if ck == 'ClassTemplateSpecializationDecl':
                        ntp = False
                if k == 'FunctionTemplateDecl' and ck in ('FunctionDecl', 'CXXMethodDecl', 'CXXConstructorDecl'):
                    # first such child is the pattern, the others are specialisations
                    idx = [x for x in n['inner'] if x.get('kind') == ck].index(c)
                    ntp = in_templ_pattern or (idx == 0)
                walk(c, nc, ntp, nta)

        for d in self.docs:
            dk = d.get('kind')
            if dk in ('CXXRecordDecl',):
                continue  # handled via their templates / specialisations
            walk({'kind': 'TranslationUnit', 'inner': [d]}, None, False)
        return res

    def find_class(self, cls, targs=None):
        """ClassTemplateSpecializationDecl (or plain CXXRecordDecl) with a definition."""
        out = []

        def walk(n):
            k = n.get('kind')
            if k in ('ClassTemplateSpecializationDecl', 'CXXRecordDecl') and n.get('name') == cls \
                    and n.get('completeDefinition'):
                out.append(n)
            for c in n.get('inner', []):
                if isinstance(c, dict) and 'kind' in c:
                    walk(c)
        for d in self.docs:
            walk(d)
        return out


# ----------------------------------------------------------------------------------------
# helpers on nodes
# ----------------------------------------------------------------------------------------

def _loc(l):
    if 'expansionLoc' in l:
        sp = l.get('spellingLoc', {})
        ex = l['expansionLoc']
        # a macro ARGUMENT is spelled in the real source file: use that position; a macro BODY is not
        if sp.get('_file') == ex.get('_file') and 'offset' in sp:
            return sp
        return ex
    return l


_SRC_CACHE = {}


def rng(n):
    r = n.get('range')
    if not r or 'begin' not in r or 'end' not in r:
        return None
    b = _loc(r['begin'])
    e = _loc(r['end'])
    if 'offset' not in b or 'offset' not in e:
        return None
    end = e['offset'] + e['tokLen']
    if is_macro(n) and b['offset'] == e['offset'] and b.get('_file') and os.path.exists(b['_file']):
        # function-like macro invocation NAME( ... ): the expansion location is only NAME; extend to the closing paren
        src = _SRC_CACHE.get(b['_file'])
        if src is None:
            src = _SRC_CACHE.setdefault(b['_file'], open(b['_file'], 'rb').read())
        i = end
        while i < len(src) and src[i:i + 1].isspace():
            i += 1
        if src[i:i + 1] == b'(':
            depth = 0
            while i < len(src):
                if src[i:i + 1] == b'(':
                    depth += 1
                elif src[i:i + 1] == b')':
                    depth -= 1
                    if depth == 0:
                        end = i + 1
                        break
                i += 1
    return (b['_file'], b['offset'], end)


def is_macro(n):
    r = n.get('range', {})
    for k in ('begin', 'end'):
        l = r.get(k, {})
        if 'expansionLoc' in l and l.get('spellingLoc', {}).get('_file') != l['expansionLoc'].get('_file'):
            return True
    return False


def kids(n):
    return [c for c in n.get('inner', []) if isinstance(c, dict) and 'kind' in c]


def qtype(n):
    t = n.get('type', {})
    return t.get('desugaredQualType') or t.get('qualType') or ''


def strip_implicit(n):
    """Skip through wrappers that do not appear in the source."""
    while n.get('kind') in ('ImplicitCastExpr', 'MaterializeTemporaryExpr', 'ExprWithCleanups',
                            'CXXBindTemporaryExpr', 'ParenExpr') and len(kids(n)) == 1 \
            and n['kind'] != 'ParenExpr':
        n = kids(n)[0]
    return n


def strip_all(n):
    while True:
        k = n.get('kind')
        if k == 'ImplicitCastExpr' and n.get('castKind') in ('DerivedToBase', 'UncheckedDerivedToBase'):
            return n
        if k in ('ImplicitCastExpr', 'MaterializeTemporaryExpr', 'ExprWithCleanups',
                 'CXXBindTemporaryExpr') and len(kids(n)) == 1:
            n = kids(n)[0]
        elif k == 'CXXConstructExpr' and len(kids(n)) == 1 and n.get('ctorType', {}) and \
                _is_copy_ctor(n):
            n = kids(n)[0]
        else:
            return n


def _is_copy_ctor(n):
    t = n.get('ctorType', {}).get('qualType', '')
    own = norm_type((n.get('type', {}).get('desugaredQualType') or n.get('type', {}).get('qualType', '')).rstrip('&'))
    # void (const X &) or void (X &&)
    m = re.match(r'void \((.*)\)( noexcept)?$', t)
    if not m:
        return False
    a = m.group(1)
    return a.rstrip().endswith('&') and len(_top_level_split(a)) == 1 and norm_type(a.rstrip().rstrip('&')) == own


def _top_level_split(s):
    out, depth, cur = [], 0, ''
    for ch in s:
        if ch in '<(':
            depth += 1
        elif ch in '>)':
            depth -= 1
        if ch == ',' and depth == 0:
            out.append(cur.strip())
            cur = ''
        else:
            cur += ch
    if cur.strip():
        out.append(cur.strip())
    return out


def fn_param_types(fn_qualtype):
    """'double (const vegas_pdf<double> &, std::vector<double> &)' -> list of param types"""
    m = re.match(r'^(.*?)\((.*)\)( const)?( noexcept)?$', fn_qualtype.strip())
    if not m:
        raise ExtractError('cannot parse function type ' + fn_qualtype)
    return m.group(1).strip(), _top_level_split(m.group(2)), bool(m.group(3))


# ----------------------------------------------------------------------------------------
# type mapping (G2, G5)
# ----------------------------------------------------------------------------------------

SCALARS = {
    'double': 'T', 'const double': 'T', 'T': 'T',
    'unsigned long': 'size_t', 'std::size_t': 'size_t', 'size_t': 'size_t',
    'std::vector::size_type': 'size_t',
    'bool': '_Bool', 'int': 'int', 'long': 'long', 'void': 'void',
    'hep::callback_mode': 'int', 'callback_mode': 'int',
    'hep::multi_channel_map': 'int', 'multi_channel_map': 'int',
}


def norm_type(t):
    t = t.strip()
    t = re.sub(r'\bconst\b', '', t)
    t = re.sub(r'\bclass\b|\bstruct\b|\btypename\b', '', t)
    t = t.replace('hep::', '').replace('std::', '')
    t = re.sub(r'\s+', ' ', t).strip()
    t = re.sub(r'\s*([<>,&*])\s*', r'\1', t)
    t = re.sub(r',allocator<[^<>]*(<[^<>]*>)?[^<>]*>', '', t)
    t = re.sub(r'numeric_type_of<[^<>]*(<[^<>]*>)?[^<>]*>', 'double', t)
    t = re.sub(r'^multi_channel_integrand<.*>::map_type$', 'vpinst::Map', t)
    t = re.sub(r'^hep_mc_result<.*>$', 'mc_result<double>', t)
    t = re.sub(r'^hep_plain_result<.*>$', 'plain_result<double>', t)
    t = re.sub(r'^hep_numeric_type<.*>$', 'double', t)
    m = re.match(r'^(?:chkpt|vegas_chkpt|multi_channel_chkpt)<(.*)>::result_type$', t)
    if m:
        t = {'vegas_chkpt': 'vegas_result<double>', 'multi_channel_chkpt': 'multi_channel_result<double>'}.get(t.split('<')[0], m.group(1))
    return t


class TypeMap:
    def __init__(self, extra=None):
        self.extra = extra or {}

    def info(self, qual):
        """returns dict(ctype=..., kind=scalar|vec|class|engine|opaque, ref=bool, ptr=bool)"""
        q = qual.strip()
        # element type spelled through the allocator traits (type of `auto const& x = v.back()` etc.): the element type itself
        m = re.search(r'__gnu_cxx::__alloc_traits<std::allocator<(.+)>, \1>::value_type', q)
        if m:
            q = q.replace(m.group(0), m.group(1))
        ref = q.endswith('&&') or q.endswith('&')
        q = q.rstrip('&').strip()
        ptr = q.endswith('*')
        if ptr:
            q = q.rstrip('*').strip()
        const = bool(re.match(r'^const\b', q.strip()) or re.search(r'\bconst$', q.strip()) or re.search(r'\bconst\s*[&*]*$', q.strip()))
        t = norm_type(q)
        if t in self.extra:
            ct, kind = self.extra[t]
            return dict(ctype=ct, kind=kind, ref=ref, ptr=ptr, const=const)
        if t in ('double',):
            return dict(ctype='T', kind='scalar', ref=ref, ptr=ptr, const=const)
        if t in ('unsigned long', 'size_t', 'vector::size_type', 'vector<double>::size_type', 'size_type'):
            return dict(ctype='size_t', kind='scalar', ref=ref, ptr=ptr, const=const)
        if t in ('bool',):
            return dict(ctype='_Bool', kind='scalar', ref=ref, ptr=ptr, const=const)
        if t in ('int', 'long', 'void', 'char', 'unsigned int', 'long double', 'unsigned long long'):
            return dict(ctype=t, kind='scalar', ref=ref, ptr=ptr, const=const)
        if t in ('callback_mode', 'multi_channel_map'):
            return dict(ctype='int', kind='scalar', ref=ref, ptr=ptr, const=const)
        m = re.match(r'^array<(.*),(\d+)>$', t)
        if m:
            e = self.info(m.group(1))
            return dict(ctype=e['ctype'], kind='carray', elem=e, count=int(m.group(2)), ref=ref, ptr=ptr, const=const)
        if t.startswith('mersenne_twister_engine<') or t in ('mt19937', 'vpinst::Rng'):
            return dict(ctype='vp_rng', kind='engine', ref=ref, ptr=ptr, const=const)
        if t in ('basic_ostream<char>', 'ostream', 'basic_ostream<char,char_traits<char>>'):
            return dict(ctype='vp_ostream', kind='opaque', ref=ref, ptr=ptr, const=const)
        if t in ('basic_istream<char>', 'istream', 'basic_istream<char,char_traits<char>>'):
            return dict(ctype='vp_istream', kind='opaque', ref=ref, ptr=ptr, const=const)
        if t in ('basic_ofstream<char>', 'ofstream', 'basic_ofstream<char,char_traits<char>>'):
            return dict(ctype='vp_ofstream', kind='opaque', ref=ref, ptr=ptr, const=const)
        if t in ('basic_string<char>', 'string', 'basic_string<char,char_traits<char>>'):
            return dict(ctype='vp_string', kind='opaque', ref=ref, ptr=ptr, const=const)
        if t.startswith('__gnu_cxx::__normal_iterator<'):
            return dict(ctype='vp_iter', kind='iter', ref=ref, ptr=ptr, const=const)
        m = re.match(r'^vector<(.*)>$', t)
        if m:
            e = self.info(m.group(1))
            if e['kind'] == 'scalar':
                name = {'T': 'vec_T', 'size_t': 'vec_sz'}.get(e['ctype'])
                if not name:
                    raise ExtractError('no vector type for element ' + m.group(1))
            else:
                name = 'vec_' + e['ctype']
            return dict(ctype=name, kind='vec', elem=e, ref=ref, ptr=ptr, const=const)
        m = re.match(r'^([A-Za-z_][A-Za-z_0-9]*)<(.*)>$', t)
        if m:
            args = _top_level_split(m.group(2))
            base = m.group(1)
            if base == 'accumulator':
                base = 'accumulator_' + ('dist' if args[-1] == 'true' else 'nodist')
            if base == 'chkpt_with_rng':
                inner = self.info(args[1])
                return dict(ctype='rng_' + inner['ctype'], kind='class', cls='chkpt_with_rng', ref=ref, ptr=ptr, const=const)
            if base == 'chkpt':
                inner = self.info(args[0])
                return dict(ctype='chkpt_' + inner['ctype'], kind='class', cls='chkpt', ref=ref, ptr=ptr, const=const)
            return dict(ctype=base, kind='class', cls=m.group(1), ref=ref, ptr=ptr, const=const)
        if re.match(r'^[A-Za-z_][A-Za-z_0-9:]*$', t):
            return dict(ctype=t.replace('::', '_'), kind='class', cls=t, ref=ref, ptr=ptr, const=const)
        raise ExtractError('unmapped type: %r (normalised %r)' % (qual, t))


# ----------------------------------------------------------------------------------------
# the emitter
# ----------------------------------------------------------------------------------------

MATH = {'pow': 'vp_pow', 'log': 'vp_log', 'sqrt': 'vp_sqrt', 'fabs': 'vp_fabs', 'fmax': 'vp_fmax',
        'isfinite': 'vp_isfinite', 'nexttoward': 'vp_nexttoward', 'log2': 'vp_log2', 'abs': 'vp_fabs'}


class Emitter:
    def __init__(self, unit, spec=None, opts=None):
        self.u = unit
        self.tm = TypeMap((opts or {}).get('types'))
        self.opts = opts or {}
        self.spec = spec or {}
        self.fired = {}       # override id -> count
        self.lines = []       # audit records
        self.loop_no = 0
        self.cur_fn = None
        self.refs = {}        # decl id -> how a DeclRefExpr to it is rewritten
        self.af = bool(self.opts.get('af'))  # abstract floating point mode
        self.calls = set()    # C names of callees (for the runner)
        self.self_ptr = 'self'

    # -- bookkeeping ---------------------------------------------------------------------
    def fire(self, oid):
        self.fired[oid] = self.fired.get(oid, 0) + 1

    def raw(self, n):
        r = rng(n)
        if r is None:
            raise ExtractError('node without source range: %s' % n.get('kind'))
        f, b, e = r
        return self.u.source(f)[b:e].decode()

    # -- generic emission ----------------------------------------------------------------
    def emit(self, n):
        k = n['kind']
        h = getattr(self, 'o_' + k, None)
        if h is not None:
            r = h(n)
            if r is not None:
                return r
        return self.default(n)

    def default(self, n):
        r = rng(n)
        if r is None:
            raise ExtractError('node without source range: %s' % n.get('kind'))
        if is_macro(n) and n['kind'] not in ('IntegerLiteral',):
            raise ExtractError('macro expansion inside extracted code at %s (kind %s)' % (str(r), n['kind']))
        f, b, e = r
        src = self.u.source(f)
        out = ''
        pos = b
        for c in kids(n):
            cr = rng(c)
            if cr is None:
                continue
            cf, cb, ce = cr
            if cf != f or cb < pos or ce > e:
                raise ExtractError('child %s of %s not nested in order (%s in %s)' % (c['kind'], n['kind'], str(cr), str(r)))
            out += src[pos:cb].decode() + self.emit(c)
            pos = ce
        out += src[pos:e].decode()
        return out

    # -- pass-through wrappers -------------------------------------------------------------
    def _only(self, n):
        ks = kids(n)
        if len(ks) != 1:
            raise ExtractError('%s with %d children' % (n['kind'], len(ks)))
        return self.emit(ks[0])

    def o_ImplicitCastExpr(self, n):
        ck = n.get('castKind')
        if ck in ('DerivedToBase', 'UncheckedDerivedToBase'):
            # the base-class sub-object is the first member `base` of the generated struct
            self.fire('G10')
            inner = kids(n)[0]
            steps = max(1, len(n.get('path', [])))
            it = self.tm.info(qtype(inner))
            if it['ptr']:
                return '(&(%s)->%s)' % (self.emit(inner), '.'.join(['base'] * steps))
            return '(%s).%s' % (self.emit(inner), '.'.join(['base'] * steps))
        if self.af and ck in ('IntegralToFloating', 'FloatingToIntegral'):
            self.fire('AF-cast')
            inner = self._only(n)
            if ck == 'IntegralToFloating':
                return 'vp_i2f(%s)' % inner
            return 'vp_f2i(%s)' % inner
        return self._only(n)

    def o_MaterializeTemporaryExpr(self, n):
        return self._only(n)

    def o_ExprWithCleanups(self, n):
        return self._only(n)

    def o_CXXBindTemporaryExpr(self, n):
        return self._only(n)

    def o_ConstantExpr(self, n):
        return None

    # -- G4: T(), T(x) -------------------------------------------------------------------------
    def o_CXXScalarValueInitExpr(self, n):
        self.fire('G4')
        ti = self.tm.info(qtype(n))
        return '((%s)0)' % ti['ctype']

    def o_CXXFunctionalCastExpr(self, n):
        ti = self.tm.info(qtype(n))
        if ti['kind'] != 'scalar':
            # Class<T>(args) temporary: handled by the construct expression inside
            return self._only(n)
        self.fire('G4')
        ks = kids(n)
        inner = self.emit(ks[0])
        return '((%s)(%s))' % (ti['ctype'], inner)

    def o_CXXUnresolvedConstructExpr(self, n):
        # T(x) in an uninstantiated default argument
        tq = n.get('typeAsWritten', {}).get('qualType') or qtype(n)
        if tq.strip() != 'T':
            raise ExtractError('unresolved construct of ' + tq)
        self.fire('G4')
        ks = kids(n)
        return '((T)(%s))' % (self.emit(ks[0]) if ks else '0')

    def o_CXXStaticCastExpr(self, n):
        ti = self.tm.info(qtype(n))
        if ti['kind'] == 'scalar':
            self.fire('G4')
            return '((%s)(%s))' % (ti['ctype'], self._only(n))
        if ti['kind'] == 'class' or ti['kind'] == 'vec':
            return self._only(n)
        raise ExtractError('static_cast to ' + qtype(n))

    def o_CXXConstCastExpr(self, n):
        self.fire('G5')
        return self._only(n)

    def o_CXXDynamicCastExpr(self, n):
        self.fire('G14')
        return self._only(n)

    def o_CStyleCastExpr(self, n):
        ti = self.tm.info(qtype(n))
        return '((%s)(%s))' % (ti['ctype'], self._only(n))

    def o_CXXBoolLiteralExpr(self, n):
        return '1' if n.get('value') else '0'

    def o_CXXNullPtrLiteralExpr(self, n):
        return '0'

    # -- AF mode: floating point operators become contract stubs ---------------------------------
    def _is_fp(self, n):
        return norm_type(qtype(n)) == 'double'

    def o_BinaryOperator(self, n):
        if not self.af:
            return None
        op = n.get('opcode')
        a, b = kids(n)
        if op in ('+', '-', '*', '/') and self._is_fp(n):
            self.fire('AF-op')
            f = {'+': 'vp_fadd', '-': 'vp_fsub', '*': 'vp_fmul', '/': 'vp_fdiv'}[op]
            return '%s(%s, %s)' % (f, self.emit(a), self.emit(b))
        return None

    def o_CompoundAssignOperator(self, n):
        if not self.af:
            return None
        op = n.get('opcode')
        a, b = kids(n)
        if op in ('+=', '-=', '*=', '/=') and self._is_fp(n):
            # computation type may differ from the lhs type (size_t rhs promoted); clang shows
            # the promotion as an ImplicitCastExpr child of the rhs, which o_ImplicitCastExpr handles
            self.fire('AF-op')
            f = {'+=': 'vp_fadd', '-=': 'vp_fsub', '*=': 'vp_fmul', '/=': 'vp_fdiv'}[op]
            lhs = self.emit(a)
            rhs = self.emit(b)
            if norm_type(qtype(b)) != 'double':
                rhs = 'vp_i2f(%s)' % rhs
            return '(%s = %s(%s, %s))' % (lhs, f, lhs, rhs)
        return None

    # -- declarations ---------------------------------------------------------------------------
    def o_DeclStmt(self, n):
        ks = kids(n)
        outs = []
        for c in ks:
            if c['kind'] in ('UsingDecl', 'TypeAliasDecl', 'TypedefDecl', 'UsingDirectiveDecl'):
                self.fire('G3')
                continue
            if c['kind'] == 'VarDecl':
                outs.append(self.vardecl(c))
            else:
                raise ExtractError('DeclStmt child ' + c['kind'])
        return ' '.join(outs)

    def decl_ctype(self, ti):
        if ti['kind'] in ('class',):
            return 'struct ' + ti['ctype']
        if ti['kind'] == 'engine':
            return 'struct ' + ti['ctype']
        if ti['kind'] == 'opaque':
            return ti['ctype']
        return ti['ctype']

    def vardecl(self, n):
        name = n['name']
        q = qtype(n)
        if q.strip().startswith('(lambda at') and self.opts.get('inline_lambdas'):
            # G15: a local [&] lambda is inlined at its call sites (captures by reference = the enclosing function's own variables)
            self.fire('G15')
            lam = None
            stack = list(kids(n))
            while stack:
                c = stack.pop()
                if c.get('kind') == 'LambdaExpr':
                    lam = c
                    break
                stack.extend(kids(c))
            if lam is None:
                raise ExtractError('lambda variable %s without LambdaExpr' % name)
            if not hasattr(self, 'lambdas'):
                self.lambdas = {}
            self.lambdas[n['id']] = lam
            return '/* lambda %s: inlined at its call sites */' % name
        ti = self.tm.info(q)
        ks = kids(n)
        init = ks[-1] if ks else None
        cty = self.decl_ctype(ti)
        if ti['kind'] == 'iter':
            # iterator local: an index into its container
            self.fire('G7')
            if init is None:
                raise ExtractError('iterator without initialiser')
            tgt = strip_all(init)
            while tgt['kind'] == 'CXXConstructExpr' and len(kids(tgt)) == 1:
                tgt = strip_all(kids(tgt)[0])
            vec, txt = self.iter_value(tgt)
            if vec is None:
                raise ExtractError('cannot tell which container iterator %s points into' % name)
            self.opts.setdefault('iter_params', {})[n['id']] = (vec, name)
            return '%ssize_t %s = %s;' % ('const ' if ti['const'] else '', name, txt)
        if ti['ref']:
            # reference local: becomes a pointer, uses become (*name)
            self.fire('G5')
            self.refs[n['id']] = '(*%s)' % name
            if init is None:
                raise ExtractError('reference without initialiser')
            tgt = strip_all(init)
            val = self.emit_as_object(tgt, ti, name)
            if val[0] == 'lvalue':
                return '%s %s*%s = &(%s);' % (cty, 'const ' if ti['const'] else '', name, val[1])
            # bound to a temporary: materialise it
            return '%s %s_tmp; %s %s *%s = &%s_tmp;' % (cty, name, val[1].replace('@DST@', '&%s_tmp' % name), cty, name, name)
        if ti['kind'] == 'scalar':
            if init is None:
                return '%s %s;' % (cty, name)
            txt = self.emit(init)
            const = 'const ' if ti['const'] else ''
            return '%s%s %s = %s;' % (const, cty, name, txt)
        # class or vector local
        if ti['kind'] == 'opaque' and init is not None and strip_all(init)['kind'] in ('CXXConstructExpr', 'CXXTemporaryObjectExpr'):
            return '%s %s; %s' % (cty, name, self.construct(strip_all(init), ti).replace('@DST@', '&' + name))
        hoist = getattr(self, 'loop_depth', 0) > 0
        if hoist:
            # CBMC 6.11 dfcc loses track of address-taken locals declared inside a loop body after a nested loop
            # (assigns checks fail spuriously): such objects are declared at function level instead (G6);
            # their constructor call stays where it was.
            d = '%s %s;' % (cty, name)
            if d not in self.temps:
                if any(t.endswith(' %s;' % name) for t in self.temps):
                    raise ExtractError('two loop-local objects named %s with different types' % name)
                self.temps.append(d)
            decl = ''
        else:
            decl = '%s %s; ' % (cty, name)
        if init is None:
            return decl
        tgt = strip_all(init)
        val = self.emit_as_object(tgt, ti, name)
        if val[0] == 'lvalue' or val[0] == 'rvalue':
            if hoist:
                return '%s = %s;' % (name, val[1])
            return '%s %s = %s;' % (cty, name, val[1])
        return '%s%s' % (decl, val[1].replace('@DST@', '&' + name))

    def emit_as_object(self, n, ti, hint):
        """Expression of class/vector type.  Returns ('lvalue', text) / ('rvalue', text) /
        ('into', 'stmts using @DST@ as destination pointer')."""
        n = strip_all(n)
        k = n['kind']
        if k == 'CXXConstructExpr':
            return ('into', self.construct(n, ti))
        if k == 'CXXFunctionalCastExpr' or k == 'CXXTemporaryObjectExpr':
            if k == 'CXXTemporaryObjectExpr':
                return ('into', self.construct(n, ti))
            return self.emit_as_object(kids(n)[0], ti, hint)
        if k in ('CallExpr', 'CXXMemberCallExpr', 'CXXOperatorCallExpr'):
            rti = self.tm.info(qtype(n))
            if rti['kind'] in ('class', 'vec', 'engine') and n.get('valueCategory') == 'prvalue':
                return ('into', self.call(n, dst='@DST@') + ';')
            return ('lvalue', self.emit(n))
        if k == 'InitListExpr':
            return ('into', self.construct(n, ti))
        return ('lvalue', self.emit(n))

    def construct(self, n, ti):
        """CXXConstructExpr of a vector or hep class into @DST@."""
        args = [a for a in kids(n) if a['kind'] != 'CXXDefaultArgExpr']
        if ti['kind'] == 'vec':
            self.fire('G6')
            vt = ti['ctype']
            if len(args) == 0:
                return 'vp_%s_init(@DST@);' % vt
            if len(args) == 1:
                a0 = strip_all(args[0])
                if self.tm.info(qtype(a0))['kind'] == 'vec':
                    return 'vp_%s_copy(@DST@, &(%s));' % (vt, self.emit(a0))
                return 'vp_%s_new(@DST@, %s);' % (vt, self.emit(args[0]))
            if len(args) == 2 and self.tm.info(qtype(args[0]))['kind'] == 'iter':
                va, ia = self.iter_parts(args[0])
                vb, ib = self.iter_parts(args[1])
                if va != vb:
                    raise ExtractError('range constructor from two containers')
                return 'vp_%s_from_range(@DST@, &(%s), %s, %s);' % (vt, va, ia, ib)
            if len(args) == 2:
                return 'vp_%s_fill(@DST@, %s, %s);' % (vt, self.emit(args[0]), self.emit(args[1]))
            raise ExtractError('vector constructor with %d args' % len(args))
        if ti['kind'] == 'class':
            self.fire('G11')
            if len(args) == 1 and self.tm.info(qtype(strip_all(args[0])))['ctype'] == ti['ctype'] \
                    and strip_all(args[0])['kind'] != 'CXXConstructExpr':
                a0 = strip_all(args[0])
                cp = 'vp_%s_copy' % ti['ctype']
                return '%s(@DST@, &(%s));' % (self.opts.get('rename', {}).get(cp, cp), self.emit(a0))
            ctor_t = n.get('ctorType', {}).get('qualType') or n.get('type', {}).get('qualType')
            cname = self.ctor_name(ti, ctor_t, len(args))
            self.calls.add(cname)
            if args and self.tm.info(qtype(args[0]))['kind'] == 'iter':
                va, ia = self.iter_parts(args[0])
                al = ['&(%s)' % va, ia]
                for a in args[1:]:
                    vb, ib = self.iter_parts(a)
                    if vb != va:
                        raise ExtractError('iterators into different containers')
                    al.append(ib)
                return '%s(@DST@, %s);' % (cname, ', '.join(al))
            return '%s(@DST@%s);' % (cname, ''.join(', ' + self.arg(a, None) for a in args))
        if ti['kind'] == 'engine' and not args:
            self.fire('G14')
            return 'vp_rng_init(@DST@);'
        if ti['kind'] == 'opaque':
            # library object (std::ofstream ...): an opaque stub object constructed from its arguments (G14)
            self.fire('G14')
            cname = self.ctor_name(ti, None, len(args))
            return '%s(@DST@%s);' % (cname, ''.join(', ' + self.arg(a, None) for a in args))
        raise ExtractError('construct of ' + str(ti))

    def ctor_name(self, ti, ctor_t, nargs):
        key = (ti['ctype'], nargs)
        m = self.opts.get('ctors', {})
        if key in m:
            return m[key]
        nm = '%s_ctor%d' % (ti['ctype'], nargs)
        return self.opts.get('rename', {}).get(nm, nm)

    # -- references to declarations ------------------------------------------------------------------
    def o_DeclRefExpr(self, n):
        rd = n.get('referencedDecl', {})
        rid = rd.get('id')
        if rid in self.refs:
            return self.refs[rid]
        if rd.get('kind') == 'VarDecl' and rd.get('name') in ('max_digits10', 'digits10') and rid not in self.u.by_id:
            self.fire('G3')
            return 'VP_' + rd['name'].upper()
        if rd.get('kind') == 'VarDecl' and rd.get('name') == 'cout':
            self.fire('G13')
            return 'vp_cout'
        if rd.get('kind') == 'VarDecl' and rd.get('name') == 'value' and rid not in self.u.by_id and norm_type(qtype(n)) == 'bool':
            # std::is_base_of<...>::value and friends: a compile-time constant of the instantiation; both values are explored
            self.fire('G14')
            return 'VP_TYPE_TRAIT()'
        if rd.get('kind') == 'EnumConstantDecl':
            self.fire('G14')
            return 'VP_ENUM_' + rd['name']
        return None

    def o_CXXThisExpr(self, n):
        return self.self_ptr

    def o_MemberExpr(self, n):
        ks = kids(n)
        base = ks[0]
        name = n['name']
        bt = qtype(base)
        if '<bound member function type>' in qtype(n):
            raise ExtractError('bare bound member function ' + name)
        self.fire('G10')
        sb = strip_all(base)
        fd = self.u.by_id.get(n.get('referencedMemberDecl'))
        isref = False
        if fd is not None:
            fq = fd.get('type', {}).get('qualType', '')
            isref = fq.strip().endswith('&')
        if sb['kind'] == 'CXXThisExpr':
            txt = '%s->%s' % (self.self_ptr, name)
        elif n.get('isArrow'):
            txt = '(%s)->%s' % (self.emit(base), name)
        else:
            txt = '(%s).%s' % (self.emit(base), name)
        return '(*%s)' % txt if isref else txt

    # -- calls -----------------------------------------------------------------------------------------
    def arg(self, a, ptype):
        """emit an argument; reference parameters of class/vector/scalar type take addresses"""
        if a['kind'] == 'CXXDefaultArgExpr':
            raise ExtractError('default argument used')
        if ptype is None:
            # decide from the argument's own type: class/vector by pointer, scalars by value
            ai = self.tm.info(qtype(a))
            sa = strip_all(a)
            if ai['ptr']:
                return self.emit(a)
            if ai['kind'] in ('class', 'vec', 'engine', 'opaque'):
                return self.addr_of(sa, ai)
            return self.emit(a)
        pi = self.tm.info(ptype)
        sa = strip_all(a)
        if pi['ptr']:
            return self.emit(a)
        if pi['kind'] in ('class', 'vec', 'engine', 'opaque'):
            return self.addr_of(sa, pi)
        if pi['ref'] and not pi['const']:
            return '&(%s)' % self.emit(sa)
        return self.emit(a)

    def base_steps(self, frm, to):
        steps = 0
        cur = frm
        while cur != to:
            cs = self.u.find_class(cur)
            if not cs or not cs[-1].get('bases'):
                return None
            cur = self.tm.info(cs[-1]['bases'][0]['type']['qualType'])['ctype']
            steps += 1
            if steps > 5:
                return None
        return steps

    def new_temp(self, ti):
        self.temp_no = getattr(self, 'temp_no', 0) + 1
        name = 'vp_t%d' % self.temp_no
        self.temps.append('%s %s;' % (self.decl_ctype(ti), name))
        return name

    def addr_of(self, sa, ti):
        if sa['kind'] in ('CallExpr', 'CXXMemberCallExpr', 'CXXOperatorCallExpr') and sa.get('valueCategory') == 'prvalue':
            # a class-valued temporary passed on: materialise it in a function-level temporary (G11)
            rti = self.tm.info(qtype(sa))
            self.fire('G11')
            t = self.new_temp(rti)
            return '(%s, &%s)' % (self.call(sa, dst='&' + t), t)
        if sa['kind'] in ('CXXTemporaryObjectExpr', 'CXXConstructExpr', 'CXXFunctionalCastExpr') and ti['kind'] == 'class':
            inner = sa
            while inner['kind'] == 'CXXFunctionalCastExpr':
                inner = strip_all(kids(inner)[0])
            if inner['kind'] in ('CXXTemporaryObjectExpr', 'CXXConstructExpr'):
                rti = self.tm.info(qtype(inner))
                self.fire('G11')
                t = self.new_temp(rti)
                return '(%s &%s)' % (self.construct(inner, rti).replace('@DST@', '&' + t).rstrip(';') + ',', t)
        if sa['kind'] in ('CXXTemporaryObjectExpr', 'CXXConstructExpr', 'InitListExpr') and ti['kind'] == 'vec' \
                and not [a for a in kids(sa) if a['kind'] != 'CXXDefaultArgExpr']:
            self.fire('G6')
            return '(&(%s){0, 0, 0})' % ti['ctype']
        if sa['kind'] in ('CXXTemporaryObjectExpr', 'CXXConstructExpr') and ti['kind'] == 'vec':
            # std::vector<X>(n, x) temporary: materialised in a function-level temporary
            self.fire('G6')
            t = self.new_temp(ti)
            return '(%s &%s)' % (self.construct(sa, ti).replace('@DST@', '&' + t).rstrip(';') + ',', t)
        if sa['kind'] in ('CXXConstructExpr', 'CXXTemporaryObjectExpr', 'InitListExpr') or \
                (sa['kind'] in ('CallExpr', 'CXXMemberCallExpr', 'CXXOperatorCallExpr') and sa.get('valueCategory') == 'prvalue'):
            raise ExtractError('temporary object passed as argument (%s)' % sa['kind'])
        return '&(%s)' % self.emit(sa)

    def call(self, n, dst=None):
        k = n['kind']
        if k == 'CXXMemberCallExpr':
            return self.member_call(n, dst)
        if k == 'CXXOperatorCallExpr':
            return self.operator_call(n, dst)
        return self.free_call(n, dst)

    def o_CallExpr(self, n):
        return self.free_call(n, None)

    def o_CXXMemberCallExpr(self, n):
        return self.member_call(n, None)

    def o_CXXOperatorCallExpr(self, n):
        return self.operator_call(n, None)

    def free_call(self, n, dst):
        ks = kids(n)
        callee = strip_all(ks[0])
        args = ks[1:]
        if callee['kind'] not in ('DeclRefExpr',):
            raise ExtractError('call through ' + callee['kind'])
        rd = callee['referencedDecl']
        name = rd['name']
        fqt = rd.get('type', {}).get('qualType', '')
        h = self.opts.get('free_calls', {}).get(name)
        if h:
            self.fire('G14')
            return h(self, n, args, dst)
        if name in MATH:
            self.fire('G3')
            return '%s(%s)' % (self.opts.get('rename', {}).get(MATH[name], MATH[name]), ', '.join(self.emit(a) for a in args))
        if name == 'generate_canonical':
            self.fire('G14')
            return 'vp_generate_canonical(%s)' % self.arg(args[0], None)
        if name == 'infinity' and not args:
            self.fire('G3')
            return 'VP_INFINITY'
        if name == 'epsilon' and not args:
            # std::numeric_limits<T>::epsilon()
            self.fire('G3')
            return '((T)(sizeof(T) == 4 ? 1.1920928955078125e-07 : 2.220446049250313e-16))'
        if name in ('max', 'min'):
            self.fire('G3')
            return 'vp_%s_sz(%s)' % (name, ', '.join(self.emit(a) for a in args))
        if name == 'distance':
            self.fire('G7')
            return self.iter_distance(args[0], args[1])
        if name == 'partial_sum':
            # std::partial_sum(first, last, d_first): assumed contract = left fold (vp_partial_sum in the prelude)
            self.fire('G7')
            va, ia = self.iter_parts(args[0])
            vb, ib = self.iter_parts(args[1])
            vd, idd = self.iter_parts(args[2])
            if va != vb:
                raise ExtractError('partial_sum over two containers')
            return 'vp_partial_sum(&(%s), %s, %s, &(%s), %s)' % (va, ia, ib, vd, idd)
        if name in ('lower_bound', 'upper_bound'):
            self.fire('G7')
            va, ia = self.iter_parts(args[0])
            vb, ib = self.iter_parts(args[1])
            if va != vb:
                raise ExtractError('%s over two containers' % name)
            self.last_iter_vec = va
            return 'vp_%s(&(%s), %s, %s, %s)' % (name, va, ia, ib, self.emit(args[2]))
        if name == 'copy':
            self.fire('G7')
            va, ia = self.iter_parts(args[0])
            vb, ib = self.iter_parts(args[1])
            vd, idd = self.iter_parts(args[2])
            return 'vp_copy_range(&(%s), %s, %s, &(%s), %s)' % (va, ia, ib, vd, idd)
        if name == 'getline' and self.opts.get('streams') and len(args) == 2:
            self.fire('G13')
            return '(*vp_is_getline(&(%s), &(%s)))' % (self.emit(args[0]), self.emit(args[1]))
        if name in ('stable_sort', 'iota', 'transform', 'getline'):
            raise ExtractError('std::%s needs a recipe-level handler' % name)
        if name == 'accumulate' and len(args) == 3 and self.tm.info(qtype(args[0]))['kind'] == 'iter':
            # std::accumulate(first, last, init): left fold with operator+ (assumed contract stub)
            self.fire('G7')
            va, ia = self.iter_parts(args[0])
            vb, ib = self.iter_parts(args[1])
            if va != vb:
                raise ExtractError('accumulate over two containers')
            return 'vp_accumulate(&(%s), %s, %s, %s)' % (va, ia, ib, self.emit(args[2]))
        # a hep:: free function: its declaration must be part of the hep:: AST dump
        if rd.get('id') not in self.u.by_id:
            raise ExtractError('call to %s, which is neither a hep:: function nor a library function with a translation' % name)
        ret, ptypes, _ = fn_param_types(fqt)
        self.fire('G9')
        cname = self.opts.get('rename', {}).get(name, name)
        self.calls.add(cname)
        al = [self.arg(a, pt) for a, pt in zip(args, ptypes)]
        rti = self.tm.info(ret)
        if rti['kind'] in ('class', 'vec') and not rti['ref']:
            if dst is None:
                raise ExtractError('class-valued call %s used as a sub-expression' % name)
            al = [dst] + al
        return '%s(%s)' % (cname, ', '.join(al))

    # iterators: begin()/end() +/- k are represented as (vector lvalue, index expression)
    def iter_parts(self, n):
        n = strip_all(n)
        k = n['kind']
        if k == 'CXXMemberCallExpr':
            me = kids(n)[0]
            if me['name'] in ('begin', 'cbegin'):
                return (self.emit(kids(me)[0]), '0')
            if me['name'] in ('end', 'cend'):
                v = self.emit(kids(me)[0])
                return (v, '(%s).n' % v)
        if k == 'CXXOperatorCallExpr':
            ks = kids(n)
            op = strip_all(ks[0])['referencedDecl']['name']
            if op in ('operator+', 'operator-'):
                v, i = self.iter_parts(ks[1])
                return (v, '(%s %s %s)' % (i, op[-1], self.emit(ks[2])))
        if k == 'CXXConstructExpr' and len(kids(n)) == 1:
            return self.iter_parts(kids(n)[0])
        if k == 'DeclRefExpr' and n['referencedDecl']['id'] in self.opts.get('iter_params', {}):
            return self.opts['iter_params'][n['referencedDecl']['id']]
        if k == 'DeclRefExpr' and n['referencedDecl']['name'] in self.opts.get('iter_names', {}):
            return self.opts['iter_names'][n['referencedDecl']['name']]
        raise ExtractError('unsupported iterator expression %s' % k)

    def iter_value(self, n):
        """iterator-valued expression -> (container text, index text)"""
        n = strip_all(n)
        while n['kind'] in ('CXXConstructExpr', 'ParenExpr') and len(kids(n)) == 1:
            n = strip_all(kids(n)[0])
        if n['kind'] == 'CallExpr':
            self.last_iter_vec = None
            txt = self.emit(n)
            return self.last_iter_vec, txt
        if n['kind'] == 'ConditionalOperator':
            c, a, b = kids(n)
            va, ta = self.iter_value(a)
            vb, tb = self.iter_value(b)
            if va != vb:
                raise ExtractError('conditional between iterators of different containers')
            return va, '((%s) ? (%s) : (%s))' % (self.emit(c), ta, tb)
        return self.iter_parts(n)

    def iter_distance(self, a, b):
        va, ia = self.iter_parts(a)
        vb, ib = self.iter_parts(b)
        return '((%s) - (%s))' % (ib, ia)

    def member_call(self, n, dst):
        ks = kids(n)
        me = ks[0]
        args = ks[1:]
        if me['kind'] != 'MemberExpr':
            raise ExtractError('member call through ' + me['kind'])
        name = me['name']
        base = kids(me)[0]
        bti = self.tm.info(qtype(base))
        sb = strip_all(base)
        if self.opts.get('streams') and name == 'precision' and len(args) == 1:
            while sb.get('kind') in ('ImplicitCastExpr', 'ParenExpr') and kids(sb):
                sb = strip_all(kids(sb)[0])
        if self.opts.get('streams') and name == 'precision' and len(args) == 1 and self.tm.info(qtype(sb))['ctype'] in ('vp_ostream', 'vp_ofstream'):
            # G13: out.precision(p) (a std::ios_base member reached through a derived-to-base cast) changes the sticky precision only,
            # NOT the notation - exactly like << std::setprecision(p)
            self.fire('G13')
            return '((void)vp_os_precision(&(%s), %s))' % (self.emit(sb), self.emit(args[0]))
        if bti['ptr'] or me.get('isArrow'):
            if sb['kind'] == 'CXXThisExpr':
                obj = '(*%s)' % self.self_ptr
            else:
                obj = '(*%s)' % self.emit(base)
        else:
            obj = self.emit(base)
        h = self.opts.get('member_calls', {}).get((bti['ctype'], name)) or self.opts.get('member_calls', {}).get(('*', name))
        if h:
            self.fire('G14')
            return h(self, n, obj, args, dst)
        if bti['kind'] == 'vec':
            self.fire('G7')
            vt = bti['ctype']
            if name == 'size':
                return '(%s).n' % obj
            if name == 'empty':
                return '((%s).n == 0)' % obj
            if name == 'at':
                return '(%s).p[VP_AT(%s, (%s).n)]' % (obj, self.emit(args[0]), obj)
            if name == 'back':
                return '(%s).p[VP_BACK((%s).n)]' % (obj, obj)
            if name == 'front':
                return '(%s).p[VP_AT(0, (%s).n)]' % (obj, obj)
            if name == 'reserve':
                return 'vp_%s_reserve(&(%s), %s)' % (vt, obj, self.emit(args[0]))
            if name == 'resize':
                return 'vp_%s_resize(&(%s), %s)' % (vt, obj, self.emit(args[0]))
            if name == 'push_back':
                a = args[0]
                if bti['elem']['kind'] == 'scalar':
                    return 'vp_%s_push(&(%s), %s)' % (vt, obj, self.emit(a))
                return 'vp_%s_push(&(%s), %s)' % (vt, obj, self.addr_of(strip_all(a), bti['elem']))
            if name == 'assign':
                if len(args) == 2 and self.tm.info(qtype(args[0]))['kind'] == 'scalar':
                    return 'vp_%s_assign_fill(&(%s), %s, %s)' % (vt, obj, self.emit(args[0]), self.emit(args[1]))
                va, ia = self.iter_parts(args[0])
                vb, ib = self.iter_parts(args[1])
                if va != vb:
                    raise ExtractError('assign from two different containers')
                return 'vp_%s_assign(&(%s), &(%s), %s, %s)' % (vt, obj, va, ia, ib)
            if name == 'erase':
                va, ia = self.iter_parts(args[0])
                vb, ib = self.iter_parts(args[1])
                if va != obj or vb != obj:
                    raise ExtractError('erase with foreign iterators')
                return 'vp_%s_erase(&(%s), %s, %s)' % (vt, obj, ia, ib)
            if name == 'emplace_back':
                eti = bti['elem']
                cname = self.ctor_name(eti, None, len(args))
                self.calls.add(cname)
                return '%s(vp_%s_emplace(&(%s))%s)' % (cname, vt, obj, ''.join(', ' + self.arg(a, None) for a in args))
            raise ExtractError('vector member %s' % name)
        if bti['kind'] in ('class', 'engine', 'opaque'):
            self.fire('G9')
            cname = '%s_%s' % (bti['ctype'], name)
            cname = self.opts.get('rename', {}).get(cname, cname)
            self.calls.add(cname)
            fqt = qtype(me)
            # the MemberExpr of a call has type '<bound member function type>'; take the callee's
            # parameter types from the call's argument nodes instead
            al = ['&(%s)' % obj] + [self.arg(a, None) for a in args]
            for idx, cty in self.opts.get('cast_args', {}).get(cname, {}).items():
                # template parameter P/I instantiated with a derived class, C callee takes the base: go to
                # the base sub-object (never a pointer cast: CBMC's assigns checking loses track of the object)
                a = args[idx - 1]
                ai = self.tm.info(qtype(a))
                target = cty.replace('const', '').replace('struct', '').replace('*', '').strip()
                steps = self.base_steps(ai['ctype'], target)
                if steps is None:
                    raise ExtractError('argument %d of %s: %s is not derived from %s' % (idx, cname, ai['ctype'], target))
                if steps:
                    al[idx] = '&((%s).%s)' % (self.emit(strip_all(a)), '.'.join(['base'] * steps))
            rti = self.tm.info(qtype(n))
            if rti['kind'] in ('class', 'vec', 'engine') and n.get('valueCategory') == 'prvalue':
                if dst is None:
                    raise ExtractError('class-valued member call %s used as a sub-expression' % cname)
                al = [dst] + al
            txt = '%s(%s)' % (cname, ', '.join(al))
            if rti['kind'] in ('class', 'vec') and n.get('valueCategory') != 'prvalue':
                txt = '(*%s)' % txt   # returns a reference: the C function returns a pointer
            if cname in self.opts.get('throws', ()):
                if self.ret_ti['ctype'] != 'void' or rti['ctype'] != 'void':
                    raise ExtractError('exception propagation through a non-void context (%s)' % cname)
                self.fire('G14')
                txt = 'VP_CALL_MAY_THROW(%s)' % txt
            return txt
        raise ExtractError('member call %s on %s' % (name, qtype(base)))

    def inline_lambda(self, lam, args):
        """the body of a void [&] lambda as a block, parameters bound to the arguments (G15)"""
        meth = None
        for c in kids(lam):
            if c.get('kind') == 'CXXRecordDecl':
                for m in kids(c):
                    if m.get('kind') == 'CXXMethodDecl' and m.get('name') == 'operator()':
                        meth = m
        if meth is None:
            raise ExtractError('lambda without call operator')
        if 'void' not in qtype(meth).split('(')[0]:
            raise ExtractError('only void lambdas are inlined')
        params = [c for c in kids(meth) if c['kind'] == 'ParmVarDecl']
        body = [c for c in kids(meth) if c['kind'] == 'CompoundStmt']
        if len(params) != len(args) or not body:
            raise ExtractError('lambda call does not match its definition')
        self.lam_no = getattr(self, 'lam_no', 0) + 1
        decls = []
        for p_, a in zip(params, args):
            pi = self.tm.info(qtype(p_))
            if pi['kind'] == 'scalar':
                decls.append('%s %s = %s;' % (pi['ctype'], p_['name'], self.emit(a)))
            elif pi['kind'] == 'opaque':
                # an opaque library object (std::string ...): only its identity exists in the C text
                decls.append('%s %s; ' % (pi['ctype'], p_['name']))
                if pi['ref']:
                    self.refs[p_['id']] = '(%s)' % p_['name']
            else:
                raise ExtractError('lambda parameter of type ' + qtype(p_))
        return '{ %s %s }' % (' '.join(decls), self.emit(body[0]))

    def operator_call(self, n, dst):
        ks = kids(n)
        op = strip_all(ks[0])['referencedDecl']['name']
        args = ks[1:]
        a0 = strip_all(args[0])
        if op == 'operator()' and a0.get('kind') == 'DeclRefExpr' and a0.get('referencedDecl', {}).get('id') in getattr(self, 'lambdas', {}):
            return self.inline_lambda(self.lambdas[a0['referencedDecl']['id']], args[1:])
        bti = self.tm.info(qtype(args[0]))
        h = self.opts.get('operator_calls', {}).get((bti['ctype'], op)) or self.opts.get('operator_calls', {}).get(('*', op))
        if h:
            self.fire('G14')
            r = h(self, n, args, dst)
            if r is not None:
                return r
        if self.opts.get('streams') and op == 'operator<<' and bti['ctype'] in ('vp_ostream', 'vp_ofstream'):
            # G13 with the ghost token stream: one call per operand, in order; manipulators change the sticky state
            self.fire('G13')
            lhs = self.emit(args[0])
            r = strip_all(args[1])
            rq = qtype(r)
            if r['kind'] == 'DeclRefExpr' and r.get('referencedDecl', {}).get('kind') == 'FunctionDecl':
                nm = r['referencedDecl']['name']
                if nm == 'scientific':
                    return '(*vp_os_scientific(&(%s)))' % lhs
                raise ExtractError('stream manipulator %s' % nm)
            if r['kind'] == 'CallExpr' and strip_all(kids(r)[0]).get('referencedDecl', {}).get('name') == 'setprecision':
                return '(*vp_os_precision(&(%s), %s))' % (lhs, self.emit(kids(r)[1]))
            if r['kind'] == 'CharacterLiteral' and r.get('value') == 10 and self.opts.get('stream_lines'):
                return '(*vp_os_nl(&(%s)))' % lhs
            if r['kind'] == 'StringLiteral' and self.opts.get('stream_lines') and r.get('value', '').startswith('"#'):
                return '(*vp_os_put_hash(&(%s)))' % lhs
            if r['kind'] in ('StringLiteral', 'CharacterLiteral'):
                return '(*vp_os_sep(&(%s)))' % lhs
            ri = self.tm.info(rq)
            if ri['ctype'] == 'vp_string':
                return '(*vp_os_put_str(&(%s), &(%s)))' % (lhs, self.emit(r))
            if ri['kind'] == 'scalar' and ri['ctype'] == 'T':
                return '(*vp_os_put_T(&(%s), %s))' % (lhs, self.emit(args[1]))
            if ri['kind'] == 'scalar' and ri['ctype'] in ('size_t', 'int'):
                return '(*vp_os_put_sz(&(%s), %s))' % (lhs, self.emit(args[1]))
            if ri['kind'] == 'scalar' and ri['ctype'] == 'char':
                return '(*vp_os_sep(&(%s)))' % lhs
            if ri['kind'] == 'engine':
                return '(*vp_os_put_rng(&(%s), &(%s)))' % (lhs, self.emit(r))
            raise ExtractError('operator<< with operand of type ' + rq)
        if self.opts.get('streams') and op == 'operator>>' and bti['ctype'] in ('vp_istream',):
            self.fire('G13')
            lhs = self.emit(args[0])
            r = strip_all(args[1])
            if r['kind'] == 'DeclRefExpr' and r.get('referencedDecl', {}).get('kind') == 'FunctionDecl':
                if r['referencedDecl']['name'] == 'ws':
                    return '(*vp_is_ws(&(%s)))' % lhs
                raise ExtractError('stream manipulator %s' % r['referencedDecl']['name'])
            ri = self.tm.info(qtype(args[1]))
            if ri['kind'] == 'scalar' and ri['ctype'] == 'T':
                return '(*vp_is_get_T(&(%s), &(%s)))' % (lhs, self.emit(args[1]))
            if ri['kind'] == 'scalar' and ri['ctype'] == 'size_t':
                return '(*vp_is_get_sz(&(%s), &(%s)))' % (lhs, self.emit(args[1]))
            if ri['kind'] == 'engine':
                return '(*vp_is_get_rng(&(%s), &(%s)))' % (lhs, self.emit(args[1]))
            raise ExtractError('operator>> into ' + qtype(args[1]))
        if op == 'operator<<' and bti['ctype'] in ('vp_ostream', 'vp_ofstream'):
            # out << a << b ...: every operand is still evaluated, in order; the formatting is libstdc++'s (G13)
            self.fire('G13')
            lhs = self.emit(args[0])
            r = strip_all(args[1])
            rq = qtype(r)
            if (r['kind'] == 'DeclRefExpr' and r.get('referencedDecl', {}).get('kind') == 'FunctionDecl') or 'std::_Set' in rq or '_Setprecision' in rq:
                return 'VP_PUT(%s, 0)' % lhs        # a manipulator
            if r['kind'] in ('StringLiteral', 'CharacterLiteral'):
                return 'VP_PUT(%s, 0)' % lhs
            ri = self.tm.info(rq)
            if ri['kind'] != 'scalar':
                return 'VP_PUT(%s, 0)' % lhs
            return 'VP_PUT(%s, %s)' % (lhs, self.emit(args[1]))
        if bti['kind'] == 'iter':
            # iterators are (container, index): comparisons, increments and dereferences act on the index (G7)
            self.fire('G7')
            if op in ('operator!=', 'operator==', 'operator<', 'operator<=', 'operator>', 'operator>='):
                va, ia = self.iter_parts(args[0])
                vb, ib = self.iter_parts(args[1])
                if va != vb:
                    raise ExtractError('comparison of iterators into different containers')
                return '(%s %s %s)' % (ia, op[8:], ib)
            if op in ('operator++', 'operator--'):
                va, ia = self.iter_parts(args[0])
                return '%s%s' % (op[8:], ia)
            if op == 'operator->':
                va, ia = self.iter_parts(args[0])
                return '(&(%s).p[%s])' % (va, ia)
            if op == 'operator*':
                va, ia = self.iter_parts(args[0])
                return '(%s).p[%s]' % (va, ia)
        if op == 'operator[]' and bti['kind'] == 'vec':
            self.fire('G7')
            return '(%s).p[%s]' % (self.emit(args[0]), self.emit(args[1]))
        if op == 'operator[]' and bti['kind'] == 'carray':
            self.fire('G7')
            return '(%s)[%s]' % (self.emit(args[0]), self.emit(args[1]))
        if op == 'operator=' and bti['kind'] == 'vec' and strip_all(args[1])['kind'] in ('CallExpr', 'CXXMemberCallExpr') and strip_all(args[1]).get('valueCategory') == 'prvalue':
            # v = f(...): move assignment from the returned vector (materialised in a function-level temporary)
            self.fire('G11')
            t = self.new_temp(bti)
            return '(%s, %s = %s)' % (self.call(strip_all(args[1]), dst='&' + t), self.emit(args[0]), t)
        if op == 'operator=' and bti['kind'] == 'vec':
            self.fire('G7')
            return 'vp_%s_copy(&(%s), &(%s))' % (bti['ctype'], self.emit(args[0]), self.emit(strip_all(args[1])))
        if op == 'operator=' and bti['kind'] == 'class':
            # x = f(...): the value is materialised in a function-level temporary, then assigned (move/copy assignment of the class:
            # the library's defaulted operator= is memberwise)
            self.fire('G11')
            rhs = strip_all(args[1])
            if rhs['kind'] in ('CallExpr', 'CXXMemberCallExpr', 'CXXOperatorCallExpr') and rhs.get('valueCategory') == 'prvalue':
                t = self.new_temp(bti)
                return '(%s, %s = %s)' % (self.call(rhs, dst='&' + t), self.emit(args[0]), t)
            return '(%s = %s)' % (self.emit(args[0]), self.emit(rhs))
        raise ExtractError('operator call %s on %s' % (op, qtype(args[0])))

    # -- statements ----------------------------------------------------------------------------------------
    def loop_hooks(self, body_txt, is_compound):
        self.loop_no += 1
        k = self.loop_no
        fn = self.cur_fn
        lc = self.spec.get(('loop', fn, k))
        bb = self.spec.get(('begin', fn, k), '')
        be = self.spec.get(('end', fn, k), '')
        return k, lc, bb, be

    def _loop(self, n, header, body):
        """header: text up to and including ')' ; body: node"""
        k = self.loop_no + 1
        self.loop_no = k
        fn = self.cur_fn
        lc = self.spec.get(('loop', fn, k))
        bb = self.spec.get(('begin', fn, k), '')
        be = self.spec.get(('end', fn, k), '')
        self.fire('G12')
        self.loop_depth = getattr(self, 'loop_depth', 0) + 1
        try:
            btxt = self.emit(body)
        finally:
            self.loop_depth -= 1
        if body['kind'] == 'CompoundStmt':
            inner = btxt.strip()
            assert inner[0] == '{' and inner[-1] == '}'
            inner = inner[1:-1]
        else:
            inner = btxt
        if be and re.search(r'\bbreak\s*;', inner) and not re.search(r'\b(for|while|switch)\s*\(', inner):
            # ghost code at the end of the body must also run when the loop is left by `break`
            inner = re.sub(r'\bbreak\s*;', lambda m: '{\n%s\nbreak; }' % be, inner)
        if be and re.search(r'\bcontinue\b', inner):
            # ghost code at the end of the body must also run on `continue`
            inner = re.sub(r'\bcontinue\s*;', '{ goto vp_cont_%s_%d; }' % (fn, k), inner)
            be = 'vp_cont_%s_%d: ;\n%s' % (fn, k, be)
        pre = self.spec.get(('before', fn, k), '')
        out = pre + header + '\n' + (lc if lc else '/* VP_LOOP %s %d: no loop contract */' % (fn, k)) + '\n{\n' + bb + inner + be + '\n}'
        self.loops.append((fn, k, bool(lc)))
        return out

    def o_ForStmt(self, n):
        r = rng(n)
        f, b, e = r
        ch = n.get('inner', [])
        body = ch[-1]
        br = rng(body)
        # header = everything from 'for' up to the body, with children emitted
        src = self.u.source(f)
        out = ''
        pos = b
        for c in ch[:-1]:
            if not isinstance(c, dict) or 'kind' not in c:
                continue
            cr = rng(c)
            if cr is None:
                continue
            out += src[pos:cr[1]].decode() + self.emit(c)
            pos = cr[2]
            if c['kind'] == 'DeclStmt':
                # DeclStmt emission includes its ';' -- skip the source ';' (ranges of DeclStmt include it)
                pass
        out += src[pos:br[1]].decode()
        return self._loop(n, out.rstrip(), body)

    def o_WhileStmt(self, n):
        ch = kids(n)
        body = ch[-1]
        f, b, e = rng(n)
        src = self.u.source(f)
        cr = rng(ch[0])
        hdr = src[b:cr[1]].decode() + self.emit(ch[0]) + src[cr[2]:rng(body)[1]].decode()
        return self._loop(n, hdr.rstrip(), body)

    def o_CXXForRangeStmt(self, n):
        ch = n.get('inner', [])
        # children: [init], range-decl, begin-decl, end-decl, cond, inc, loopvar DeclStmt, body
        ch = [c for c in ch]
        body = ch[-1]
        lv = ch[-2]
        rangedecl = [c for c in ch if isinstance(c, dict) and c.get('kind') == 'DeclStmt'][0]
        rv = kids(rangedecl)[0]           # VarDecl __range1
        rexpr = strip_all(kids(rv)[-1])
        rti = self.tm.info(qtype(rexpr))
        if rti['kind'] != 'vec':
            raise ExtractError('range-for over ' + qtype(rexpr))
        self.fire('G8')
        vtxt = self.emit(rexpr)
        var = kids(lv)[0]
        vti = self.tm.info(qtype(var))
        k = self.loop_no + 1
        idx = 'vp_r%d' % k
        pre = ''
        if vti['ref'] or vti['kind'] != 'scalar':
            self.refs[var['id']] = '(%s).p[%s]' % (vtxt, idx)
        else:
            pre = '%s%s %s = (%s).p[%s];\n' % ('const ' if vti['const'] else '', vti['ctype'], var['name'], vtxt, idx)
        hdr = 'for (size_t %s = 0; %s != (%s).n; ++%s)' % (idx, idx, vtxt, idx)
        # emit like a loop, with the by-value copy at the start of the body
        fn = self.cur_fn
        save = self.spec.get(('begin', fn, k), '')
        self.spec[('begin', fn, k)] = pre + save
        try:
            return self._loop(n, hdr, body)
        finally:
            self.spec[('begin', fn, k)] = save

    def o_ReturnStmt(self, n):
        ks = kids(n)
        ex = self.spec.get(('exit', self.cur_fn), '')
        if not ks:
            return '{ %s return; }' % ex
        rti = self.ret_ti
        if rti['kind'] in ('class', 'vec', 'engine') and not rti['ref']:
            self.fire('G11')
            val = self.emit_as_object(ks[0], rti, 'vp_ret')
            if val[0] == 'into':
                return '{ %s %s return; }' % (val[1].replace('@DST@', 'vp_ret'), ex)
            src = strip_all(ks[0])
            while src['kind'] == 'CXXConstructExpr' and len(kids(src)) == 1:
                src = strip_all(kids(src)[0])
            is_local = src['kind'] == 'DeclRefExpr' and src.get('referencedDecl', {}).get('kind') == 'VarDecl'
            if is_local or rti['kind'] == 'engine':
                return '{ *vp_ret = %s; %s return; }' % (val[1], ex)     # a local is moved out
            cp = 'vp_%s_copy' % rti['ctype']
            return '{ %s(vp_ret, &(%s)); %s return; }' % (self.opts.get('rename', {}).get(cp, cp), val[1], ex)   # anything else is copied
        if rti['kind'] in ('class', 'vec') and rti['ref']:
            return '{ %s return &(%s); }' % (ex, self.emit(strip_all(ks[0])))
        if ex:
            return '{ %s vp_retval = %s; %s return vp_retval; }' % (self.decl_ctype(rti), self.emit(ks[0]), ex)
        return None

    def o_ParenExpr(self, n):
        # assert(c) from <cassert>:  (static_cast<bool>(c) ? void(0) : __assert_fail(...))  ->  VP_REPO_ASSERT(c): an obligation
        if not is_macro(n):
            return None
        ks = kids(n)
        if len(ks) == 1 and ks[0]['kind'] == 'ConditionalOperator':
            c3 = kids(ks[0])
            if len(c3) == 3 and c3[2]['kind'] == 'CallExpr':
                callee = strip_all(kids(c3[2])[0])
                if callee.get('referencedDecl', {}).get('name') == '__assert_fail':
                    cond = c3[0]
                    while cond['kind'] in ('CXXStaticCastExpr', 'ImplicitCastExpr', 'CXXFunctionalCastExpr') and len(kids(cond)) == 1 and 'bool' in qtype(cond):
                        cond = kids(cond)[0]
                    self.fire('G14')
                    return 'VP_REPO_ASSERT(%s)' % self.emit(cond)
        raise ExtractError('macro expansion inside extracted code (not assert)')

    def o_CXXThrowExpr(self, n):
        # throw E(...);  ->  the exception-in-flight flag is raised and the function returns (G14)
        self.fire('G14')
        rt = self.ret_ti
        if rt['kind'] == 'scalar' and rt['ctype'] != 'void':
            return '{ vp_thrown = 1; return (%s)0; }' % rt['ctype']
        return '{ vp_thrown = 1; return; }'

    def o_NullStmt(self, n):
        return None

    # -- functions -----------------------------------------------------------------------------------------------
    def function(self, fn, cname, cls_ti=None, is_ctor=False, const_method=False):
        self.cur_fn = cname
        self.temps = []
        self.loop_no = 0
        self.loops = getattr(self, 'loops', [])
        self.refs = dict(self.opts.get('refs', {}))
        params = [c for c in kids(fn) if c['kind'] == 'ParmVarDecl']
        body = [c for c in kids(fn) if c['kind'] == 'CompoundStmt']
        if not body:
            raise ExtractError('function %s has no body' % cname)
        body = body[0]
        fqt = qtype(fn)
        ret, ptypes, is_const = fn_param_types(fqt)
        rti = self.tm.info(ret) if not is_ctor else self.tm.info('void')
        self.ret_ti = rti
        plist = []
        if rti['kind'] in ('class', 'vec', 'engine') and not rti['ref']:
            plist.append('%s *vp_ret' % self.decl_ctype(rti))
            rtxt = 'void'
        elif rti['kind'] in ('class', 'vec'):
            rtxt = '%s%s *' % ('const ' if rti['const'] else '', self.decl_ctype(rti))
        else:
            rtxt = rti['ctype']
        if cls_ti is not None:
            plist.append('%sstruct %s *self' % ('const ' if (is_const and not self.opts.get('mutable_self')) else '', cls_ti))
        ndef = self.opts.get('default_args', 0)
        defaults = ''
        first_iter = None
        iter_params = {}
        for pno, p in enumerate(params):
            pi = self.tm.info(qtype(p))
            nm = p.get('name')
            if nm is None:
                nm = 'vp_unnamed%d' % len(plist)
            if pno >= len(params) - ndef:
                dk = kids(p)
                if not dk:
                    # uninstantiated default argument: take it from the template pattern (same source range)
                    for cand in self.u.by_id.values():
                        if cand.get('kind') == 'ParmVarDecl' and cand.get('name') == nm and kids(cand) and rng(cand) is not None and rng(p) is not None and rng(cand)[:2] == rng(p)[:2]:
                            dk = kids(cand)
                            break
                if not dk:
                    raise ExtractError('parameter %s has no default argument' % nm)
                defaults += '%s %s = %s;\n' % (self.decl_ctype(pi), nm, self.emit(dk[-1]))
                continue
            if pi['kind'] == 'iter':
                self.fire('G7')
                if first_iter is None:
                    first_iter = nm
                    plist.append('const %s *%s_v' % (self.opts.get('iter_vec', 'vec_T'), nm))
                plist.append('size_t %s' % nm)
                iter_params[p['id']] = ('(*%s_v)' % first_iter, nm)
                continue
            if pi['kind'] in ('class', 'vec', 'engine', 'opaque'):
                self.fire('G5')
                const = 'const ' if (pi['const'] and pi['ref']) else ''
                if pi['ptr']:
                    plist.append('%s%s *%s' % ('const ' if pi['const'] else '', self.decl_ctype(pi), nm))
                elif pi['ref']:
                    plist.append('%s%s *%s' % (const, self.decl_ctype(pi), nm))
                    self.refs[p['id']] = '(*%s)' % nm
                else:
                    if self.opts.get('byval_copy'):
                        # by value: the function works on a private copy (distinct object identity; a derived argument is sliced)
                        # (the parameter keeps its name so that contracts written for a reference parameter still compile and then FAIL
                        # on identity, instead of breaking the build)
                        plist.append('const %s *%s' % (self.decl_ctype(pi), nm))
                        defaults += '%s vp_copy_%s = *%s;\n' % (self.decl_ctype(pi), nm, nm)
                        self.refs[p['id']] = '(vp_copy_%s)' % nm
                    else:
                        # by value: the C function works on a private copy made by the caller stub
                        plist.append('%s *%s' % (self.decl_ctype(pi), nm))
                        self.refs[p['id']] = '(*%s)' % nm
            elif pi['ref'] and not pi['const']:
                self.fire('G5')
                plist.append('%s *%s' % (pi['ctype'], nm))
                self.refs[p['id']] = '(*%s)' % nm
            else:
                plist.append('%s %s' % (pi['ctype'], nm))
        self.opts = dict(self.opts)
        self.opts['iter_params'] = iter_params
        ghost = self.spec.get(('ghostparams', cname), '')
        if ghost:
            plist.append(ghost.strip())
        sig = '%s %s(%s)' % (rtxt, cname, ', '.join(plist) if plist else 'void')
        contract = self.spec.get(('contract', cname), '')
        inits = ''
        if is_ctor:
            for c in kids(fn):
                if c['kind'] == 'CXXCtorInitializer':
                    inits += self.ctor_init(c)
        btxt = self.emit(body).strip()
        entry = self.spec.get(('entry', cname), '')
        ex = self.spec.get(('exit', cname), '')
        assert btxt[0] == '{' and btxt[-1] == '}'
        inner = btxt[1:-1]
        f, b, e = rng(fn)
        h = hashlib.sha256(self.u.source(f)[b:e]).hexdigest()
        line0 = self.u.source(f)[:b].count(b'\n') + 1
        line1 = self.u.source(f)[:e].count(b'\n') + 1
        self.lines.append(dict(cname=cname, file=f, begin_line=line0, end_line=line1, sha256=h))
        tail = ''
        if rtxt == 'void' and ex:
            tail = ex
        tdecl = ''.join(t + '\n' for t in self.temps)
        return '%s\n%s\n{\n%s%s%s%s%s%s\n}\n' % (sig, contract, tdecl, defaults, entry, inits, inner, tail), sig

    def ctor_init(self, c):
        fld = c.get('anyInit') or {}
        ks = kids(c)
        if not fld:
            # base class initialiser
            bi = c.get('baseInit')
            if bi is None:
                raise ExtractError('unknown ctor initialiser')
            bti = self.tm.info(bi.get('qualType'))
            e = strip_all(ks[0])
            self.fire('G11')
            txt = self.construct(e, bti).replace('@DST@', '&self->base')
            return txt + '\n'
        name = fld['name']
        fti = self.tm.info(fld['type'].get('desugaredQualType') or fld['type']['qualType'])
        self.fire('G10')
        if not ks:
            return ''
        e = strip_all(ks[0])
        if fti['kind'] == 'scalar':
            if e['kind'] == 'InitListExpr':
                ek = kids(e)
                return '%s->%s = %s;\n' % (self.self_ptr, name, self.emit(ek[0]) if ek else '0')
            if e['kind'] == 'ImplicitValueInitExpr':
                return '%s->%s = 0;\n' % (self.self_ptr, name)
            return '%s->%s = %s;\n' % (self.self_ptr, name, self.emit(ks[0]))
        if fti['kind'] == 'carray':
            if e['kind'] in ('CXXConstructExpr', 'InitListExpr', 'ImplicitValueInitExpr') and not [a for a in kids(e) if a['kind'] not in ('ImplicitValueInitExpr', 'InitListExpr')]:
                return ''.join('%s->%s[%d] = 0;\n' % (self.self_ptr, name, i) for i in range(fti['count']))
            raise ExtractError('array member initialiser')
        if fti['ptr']:
            return '%s->%s = %s;\n' % (self.self_ptr, name, self.emit(ks[0]))
        if fti['ref']:
            return '%s->%s = &(%s);\n' % (self.self_ptr, name, self.emit(e))
        if e['kind'] in ('CXXConstructExpr', 'InitListExpr'):
            return self.construct(e, fti).replace('@DST@', '&%s->%s' % (self.self_ptr, name)) + '\n'
        val = self.emit_as_object(e, fti, name)
        if val[0] == 'into':
            return val[1].replace('@DST@', '&%s->%s' % (self.self_ptr, name)) + '\n'
        return 'vp_%s_copy(&%s->%s, &(%s));\n' % (fti['ctype'], self.self_ptr, name, val[1])


# ----------------------------------------------------------------------------------------
# post-processing of emitted text (G1, G3)
# ----------------------------------------------------------------------------------------

def postprocess(txt):
    """G1/G3: comments removed (line structure preserved so that #line mapping stays exact)"""
    txt = re.sub(r'//[^\n]*', '', txt)
    txt = re.sub(r'/\*(?!@).*?\*/', lambda m: '\n' * m.group(0).count('\n'), txt, flags=re.S)
    txt = re.sub(r'\bstd::size_t\b', 'size_t', txt)
    return txt


# ----------------------------------------------------------------------------------------
# spec files:   //@<section> <fn> [k]    followed by text, spliced with #line directives
# ----------------------------------------------------------------------------------------

def load_spec(path):
    spec = {}
    names = {}   # (file, line) -> obligation name
    if not os.path.exists(path):
        return spec, names
    cur = None
    buf = []
    start = 0
    lines = open(path).read().split('\n')

    def flush():
        if cur is not None:
            body = '\n'.join(buf)
            if cur[0] in ('ghostparams',):
                spec[cur] = body.strip()
            else:
                if not body.strip():
                    return
                spec[cur] = '#line %d "%s"\n%s\n#line 900000 "extracted"\n' % (start, path, body)
    for i, l in enumerate(lines, 1):
        m = re.match(r'^//@(\w+)\s+(\w+)(?:\s+(\d+))?\s*$', l)
        if m:
            flush()
            sec, fn, k = m.group(1), m.group(2), m.group(3)
            cur = (sec, fn, int(k)) if k else (sec, fn)
            buf = []
            start = i + 1
            continue
        mm = re.search(r'/\*@\s*([\w.\-]+)\s*\*/', l)
        if mm:
            names[(os.path.abspath(path), i)] = mm.group(1)
        buf.append(l)
    flush()
    return spec, names
