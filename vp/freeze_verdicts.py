#!/usr/bin/env python3
"""Write /verif/verdicts/ from the local verdict cache (out/cache).

  VP_KEYLOG=<file> ./check <every property>     (each check appends the keys of the jobs it looked up)
  vp/freeze_verdicts.py <file>                  keeps exactly those entries: <job>_<key>.json.gz

A committed verdict is the stored result of the solvers on one exact verification problem: the key is the SHA-256 of the
translation unit extracted from /repo (re-extracted on every run), the prelude headers it includes, the job definition
and the tier.  It is reused only for a byte-identical problem; any change to /repo, a spec or the prelude gives another
key and the solvers run.  Only `proved` / `failed` results of complete (not truncated) runs are ever stored."""
import os, sys, json, gzip, glob

HERE = os.path.dirname(os.path.abspath(__file__))
ROOT = os.path.dirname(HERE)


def main():
    keys = sorted(set(l.strip() for l in open(sys.argv[1]) if l.strip()))
    src = os.path.join(ROOT, 'out', 'cache')
    dst = os.path.join(ROOT, 'verdicts')
    os.makedirs(dst, exist_ok=True)
    keep = set()
    missing = []
    for k in keys:
        p = os.path.join(src, k + '.json')
        g = os.path.join(dst, k + '.json.gz')
        if os.path.exists(p):
            r = json.load(open(p))
            if r.get('status') not in ('proved', 'failed') or r.get('truncated'):
                missing.append(k + ' (status %s)' % r.get('status'))
                continue
            for o in r.get('obligations', []):
                if o.get('status') == 'proved':
                    o.pop('trace', None)
            with gzip.GzipFile(g, 'wb', mtime=0) as f:
                f.write(json.dumps(r, sort_keys=True).encode())
            keep.add(os.path.basename(g))
        elif os.path.exists(g):
            keep.add(os.path.basename(g))
        else:
            missing.append(k)
    for g in glob.glob(os.path.join(dst, '*.json.gz')):
        if os.path.basename(g) not in keep:
            os.remove(g)
    print('%d verdicts kept in verdicts/, %d looked-up keys without a stored verdict' % (len(keep), len(missing)))
    for m in missing:
        print('  no verdict stored for', m)


if __name__ == '__main__':
    main()
