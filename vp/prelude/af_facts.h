/* Single-operation IEEE facts used by the abstract-FP mode.  FACT(name, hypothesis, conclusion) over
 * operands a, b and the result r of ONE operation.  The same table is used
 *   (1) as assumptions on the uninterpreted result in vp_fmul / vp_fdiv (vp.h), and
 *   (2) as obligations on the real C operator, bit-precisely, in lemmas/ieee_facts.c (job ieee_facts),
 * so the abstract mode adds nothing to the trusted base. */
#ifndef VP_AF_FACTS_H
#define VP_AF_FACTS_H
#define VP_TWO20 ((T)1048576)

/* multiplication */
#define FMUL_FACTS(FACT) \
  FACT(mul_lt,      ((a) >= 0 && (a) < 1 && (b) >= 1 && (b) <= VP_TWO20),          ((r) >= 0 && (r) < (b))) \
  FACT(mul_nonneg,  ((a) >= 0 && (b) >= 0 && VP_FINITE(a) && VP_FINITE(b)),        ((r) >= 0)) \
  FACT(mul_zero_l,  ((a) == 0 && VP_FINITE(b)),                                    ((r) == 0)) \
  FACT(mul_zero_r,  ((b) == 0 && VP_FINITE(a)),                                    ((r) == 0)) \
  FACT(mul_nan,     (VP_ISNAN(a) || VP_ISNAN(b)),                                  (VP_ISNAN(r))) \
  FACT(mul_zero_any, ((a) == 0 || (b) == 0),                                       ((r) == 0 || VP_ISNAN(r))) \
  FACT(mul_comm,    (1),                                                           (FEQ((r), (b) * (a))))

/* division */
#define FDIV_FACTS(FACT) \
  FACT(div_self,    (VP_FINITE(a) && (a) > 0 && (b) == (a)),                        ((r) == 1)) \
  FACT(div_unit,    ((a) >= 0 && (a) <= (b) && VP_FINITE(b) && (b) > 0),            ((r) >= 0 && (r) <= 1)) \
  FACT(div_zero,    ((a) == 0 && (b) > 0),                                          ((r) == 0)) \
  FACT(div_nonneg,  ((a) >= 0 && (b) > 0 && VP_FINITE(a)),                          ((r) >= 0 && !VP_ISNAN(r))) \
  FACT(div_nan,     (VP_ISNAN(a) || VP_ISNAN(b)),                                   (VP_ISNAN(r)))

#define VP_ASSUME_FACT(name, hyp, concl) __CPROVER_assume(!(hyp) || (concl));
/* mul_comm mentions the real operator: not usable as an assumption on an uninterpreted symbol */
#define VP_FMUL_FACTS(a, b, r) \
  VP_ASSUME_FACT(mul_lt,      ((a) >= 0 && (a) < 1 && (b) >= 1 && (b) <= VP_TWO20),   ((r) >= 0 && (r) < (b))) \
  VP_ASSUME_FACT(mul_nonneg,  ((a) >= 0 && (b) >= 0 && VP_FINITE(a) && VP_FINITE(b)), ((r) >= 0)) \
  VP_ASSUME_FACT(mul_zero_l,  ((a) == 0 && VP_FINITE(b)),                             ((r) == 0)) \
  VP_ASSUME_FACT(mul_zero_r,  ((b) == 0 && VP_FINITE(a)),                             ((r) == 0)) \
  VP_ASSUME_FACT(mul_nan,     (VP_ISNAN(a) || VP_ISNAN(b)),                           (VP_ISNAN(r))) \
  VP_ASSUME_FACT(mul_zero_any, ((a) == 0 || (b) == 0),                                ((r) == 0 || VP_ISNAN(r)))
#define VP_FDIV_FACTS(a, b, r) FDIV_FACTS(VP_ASSUME_FACT)
#endif
