/* Abstract writers/readers of nested objects for the C05 lemmas of the adaptive checkpoints.  Each nested object is ONE token
 * carrying an identity; its own text format is the subject of its own lemma (mc_result, vegas_pdf, ...).
 * Base class chkpt<Result>::serialize: header, number of results, the results.  Writing a result sets std::scientific and the
 * precision (mc_result::serialize does) and these are STICKY: after a base serialisation with results the stream is in
 * scientific / max_digits10-1 state, with no results it is in whatever state it was.  That is exactly the situation in which a
 * missing manipulator in the derived class goes unnoticed by text->object->text tests. */
#ifndef VP_STREAM_STUBS_H
#define VP_STREAM_STUBS_H
#define VP_DEFINE_BASE_CHKPT_IO(CLS)                                                                 \
  static inline void CLS##_serialize(const struct CLS *c, vp_stream *s)                             \
  {                                                                                                  \
    s->pending_sep = 1; vp_os_put_obj(s, c->results_.n);                                             \
    if (c->results_.n > 0) { s->sci = 1; s->prec = VP_MAX_DIGITS10 - 1; }                            \
  }                                                                                                  \
  static inline void CLS##_ctor1(struct CLS *c, vp_stream *in)                                       \
  {                                                                                                  \
    size_t n; vp_is_get_obj(in, &n); c->results_.n = n; c->results_.p = 0; c->results_.cap = n;      \
  }                                                                                                  \
  static inline const vec_##CLS##_elem *CLS##_results(const struct CLS *c) { return &c->results_; }
#endif
