/* opaque library types */
#ifndef VP_OPAQUE_H
#define VP_OPAQUE_H
typedef struct vp_string { size_t id; } vp_string;   /* std::string: a ghost identity */
#endif
