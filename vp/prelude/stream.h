/* Ghost token stream for the checkpoint text format (C05).  A std::ostream is a sequence of tokens
 *   (kind, integer value / real value, precision and notation in force when the token was written, separated-from-predecessor)
 * plus the STICKY formatting state (std::scientific and std::setprecision persist until changed).  A std::istream reads the same
 * sequence.  ASSUMED iostream contract (the digits->bits step lives in libstdc++): a finite real written with std::scientific and
 * precision >= max_digits10 - 1 and separated by whitespace is read back bit-identically by operator>>; an unsigned integer
 * always is.  Reading a real that was written with less precision, or a token that is not separated, or a token of the wrong
 * kind, is an obligation failure (C05.prec / C05.sep / C05.align). */
#ifndef VP_STREAM_H
#define VP_STREAM_H
#ifdef VP_REAL_IS_float
#define VP_MAX_DIGITS10 9
#define VP_DIGITS10 6
#else
#define VP_MAX_DIGITS10 17
#define VP_DIGITS10 15
#endif
#define VP_TOK_INT 1
#define VP_TOK_REAL 2
#define VP_TOK_OBJ 3      /* a nested object written by a callee that is abstract in this lemma */
#define VP_NTOK 24
struct vp_token { int kind; size_t u; T r; int prec; _Bool sci; _Bool sep; };
typedef struct vp_stream { struct vp_token tok[VP_NTOK]; size_t n; size_t pos; int prec; _Bool sci; _Bool pending_sep; } vp_stream;
typedef vp_stream vp_ostream;
typedef vp_stream vp_istream;
static inline void vp_stream_init(vp_stream *s) { s->n = 0; s->pos = 0; s->prec = 6; s->sci = 0; s->pending_sep = 1; }
static inline vp_stream *vp_os_scientific(vp_stream *s) { s->sci = 1; return s; }
static inline vp_stream *vp_os_precision(vp_stream *s, int p) { s->prec = p; return s; }
static inline vp_stream *vp_os_sep(vp_stream *s) { s->pending_sep = 1; return s; }
static inline vp_stream *vp_os_put_sz(vp_stream *s, size_t x)
{
  __CPROVER_assert(s->n < VP_NTOK, "token stream capacity of the lemma suffices");
  s->tok[s->n].kind = VP_TOK_INT; s->tok[s->n].u = x; s->tok[s->n].r = 0; s->tok[s->n].prec = s->prec; s->tok[s->n].sci = s->sci; s->tok[s->n].sep = s->pending_sep;
  s->n = s->n + 1; s->pending_sep = 0;
  return s;
}
static inline vp_stream *vp_os_put_T(vp_stream *s, T x)
{
  __CPROVER_assert(s->n < VP_NTOK, "token stream capacity of the lemma suffices");
  s->tok[s->n].kind = VP_TOK_REAL; s->tok[s->n].u = 0; s->tok[s->n].r = x; s->tok[s->n].prec = s->prec; s->tok[s->n].sci = s->sci; s->tok[s->n].sep = s->pending_sep;
  s->n = s->n + 1; s->pending_sep = 0;
  return s;
}
static inline vp_stream *vp_os_put_obj(vp_stream *s, size_t id)
{
  __CPROVER_assert(s->n < VP_NTOK, "token stream capacity of the lemma suffices");
  s->tok[s->n].kind = VP_TOK_OBJ; s->tok[s->n].u = id; s->tok[s->n].r = 0; s->tok[s->n].prec = s->prec; s->tok[s->n].sci = s->sci; s->tok[s->n].sep = s->pending_sep;
  s->n = s->n + 1; s->pending_sep = 0;
  return s;
}
static inline vp_stream *vp_is_get_sz(vp_stream *s, size_t *x)
{
  __CPROVER_assert(s->pos < s->n, "C05.align: the reader does not run past what the writer produced");
  __CPROVER_assert(s->tok[s->pos].kind == VP_TOK_INT, "C05.align: an integer is read where an integer was written");
  __CPROVER_assert(s->tok[s->pos].sep, "C05.sep: the token is separated from its predecessor");
  *x = s->tok[s->pos].u; s->pos = s->pos + 1;
  return s;
}
static inline vp_stream *vp_is_get_T(vp_stream *s, T *x)
{
  __CPROVER_assert(s->pos < s->n, "C05.align: the reader does not run past what the writer produced");
  __CPROVER_assert(s->tok[s->pos].kind == VP_TOK_REAL, "C05.align: a real is read where a real was written");
  __CPROVER_assert(s->tok[s->pos].sep, "C05.sep: the token is separated from its predecessor");
  __CPROVER_assert(s->tok[s->pos].sci && s->tok[s->pos].prec >= VP_MAX_DIGITS10 - 1, "C05.prec: the real was written in scientific notation with max_digits10 - 1 fractional digits");
  *x = s->tok[s->pos].r; s->pos = s->pos + 1;
  return s;
}
static inline vp_stream *vp_is_get_obj(vp_stream *s, size_t *id)
{
  __CPROVER_assert(s->pos < s->n, "C05.align: the reader does not run past what the writer produced");
  __CPROVER_assert(s->tok[s->pos].kind == VP_TOK_OBJ, "C05.align: a nested object is read where one was written");
  __CPROVER_assert(s->tok[s->pos].sep, "C05.sep: the token is separated from its predecessor");
  *id = s->tok[s->pos].u; s->pos = s->pos + 1;
  return s;
}
#endif
