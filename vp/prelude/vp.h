/* C prelude for the text extracted from hep-mc (DESIGN.md 3.1).  Three build modes:
 *   VP_CBMC    goto-cc: contracts are CBMC code contracts, stubs have no bodies
 *   VP_NATIVE  gcc: contracts vanish, stubs map onto libm / the C++ replay driver
 */
#ifndef VP_PRELUDE_H
#define VP_PRELUDE_H
#include <stddef.h>
#include <stdlib.h>
#include <math.h>

#ifndef VP_REAL
#define VP_REAL double
#endif
typedef VP_REAL T;

#ifdef VP_NATIVE
#define __CPROVER_requires(...)
#define __CPROVER_ensures(...)
#define __CPROVER_assigns(...)
#define __CPROVER_frees(...)
#define __CPROVER_loop_invariant(...)
#define __CPROVER_decreases(...)
#define __CPROVER_assert(c, m) ((void)0)
#define __CPROVER_assume(c) ((void)0)
#define VP_GHOST(...)
#else
#define VP_GHOST(...) __VA_ARGS__
#endif

#ifdef VP_NO_CANARY
#define VP_CANARY() ((void)0)
#else
#define VP_CANARY() __CPROVER_assert(0, "VP_CANARY reachable (must fail)")
#endif
/* a call of a function that may throw: the exception propagates (the caller returns at once) */
#define VP_CALL_MAY_THROW(call) do { call; if (vp_thrown) return; } while (0)
/* the repository's own assert(c) becomes an obligation */
#define VP_REPO_ASSERT(c) __CPROVER_assert((c), "assert() in the repository holds")
#define VP_INFINITY ((T)(1.0 / 0.0))
#define VP_SZ_MAX 18446744073709551615UL
#define VP_ISNAN(a) ((a) != (a))
#define VP_ISINF(a) (!VP_ISNAN(a) && VP_ISNAN((a) - (a)))
#define VP_FINITE(a) (!VP_ISNAN((a) - (a)))
/* bit pattern of a floating-point lvalue (bit identity: distinguishes +0/-0 and NaN payloads) */
#ifdef VP_REAL_IS_float
typedef unsigned int vp_bits_t;
#else
typedef unsigned long vp_bits_t;
#endif
#define VP_BITS(lv) (*(const vp_bits_t *)&(lv))
/* identity of two floating-point values (sign of zero distinguished; on the SAT path also the NaN payload).
 * NOT a pointer cast: cvc5's FP theory has no bit pattern for NaN, so VP_BITS must not be used on SMT paths. */
#ifdef VP_NATIVE
#define BEQ(a, b) (VP_BITS(a) == VP_BITS(b))
#else
#define BEQ(a, b) __CPROVER_equal((a), (b))
#endif
/* NaN-aware equality (bitwise up to the sign of zero / NaN payload) */
#define FEQ(a, b) (((a) == (b)) || (VP_ISNAN(a) && VP_ISNAN(b)))

/* ---------------------------------------------------------------------------------------
 * vectors: std::vector<X> is {p, n, cap}; cap is ghost (capacity assertion for push_back)
 * ------------------------------------------------------------------------------------- */
#ifdef VP_PUSH_ASSUME_CAP
/* the element count is non-linear in the loop counters (rows x columns): "the reserved capacity suffices" is the integer
 * lemma L-cell-index (specs/int_lemmas.smt2) and is assumed here; the counts themselves are asserted by the spec */
#define VP_PUSH_CAPACITY_CHECK(v) __CPROVER_assume((v)->n < (v)->cap);
#else
#define VP_PUSH_CAPACITY_CHECK(v) __CPROVER_assert((v)->n < (v)->cap, "push_back within reserved capacity");
#endif
#define VP_DECLARE_VEC(NAME, ELEM) typedef struct NAME { ELEM *p; size_t n; size_t cap; } NAME;
VP_DECLARE_VEC(vec_T, T)
VP_DECLARE_VEC(vec_sz, size_t)

/* ghost state */
/* Ghost indices: every "for all k" fact is stated for the arbitrary but fixed indices vp_gk / vp_gj
 * (never assigned; nondeterministic in each harness).  Value-initialised vectors (std::vector<X> v(n))
 * are modelled as malloc'ed (arbitrary) storage that is zero AT the ghost indices: a sound
 * over-approximation (a zero-initialised symbolic-size array costs >11 GB in CBMC 6.11). */
extern size_t vp_gk, vp_gj, vp_gm;
#ifdef VP_NATIVE
#define VP_COPY_AT_GHOST(d, s, n) { size_t vp_i_; for (vp_i_ = 0; vp_i_ < (n); ++vp_i_) (d)[vp_i_] = (s)[vp_i_]; }
#else
#define VP_COPY_AT_GHOST(d, s, n) { if (vp_gk < (n)) (d)[vp_gk] = (s)[vp_gk]; if (vp_gj < (n)) (d)[vp_gj] = (s)[vp_gj]; if (vp_gm < (n)) (d)[vp_gm] = (s)[vp_gm]; }
#endif
#ifdef VP_NATIVE
#define VP_ZERO_AT_GHOST(p, n) { size_t vp_i_; for (vp_i_ = 0; vp_i_ < (n); ++vp_i_) (p)[vp_i_] = 0; }
#else
#define VP_ZERO_AT_GHOST(p, n) { if (vp_gk < (n)) (p)[vp_gk] = 0; if (vp_gj < (n)) (p)[vp_gj] = 0; if (vp_gm < (n)) (p)[vp_gm] = 0; }
#endif
extern int vp_thrown;           /* a C++ exception is in flight */

/* at(): the throwing bounds check of std::vector::at becomes an obligation */
static inline size_t vp_at(size_t i, size_t n)
{
#ifdef VP_AT_ASSUME
  /* the index bound is non-linear integer arithmetic: it is discharged over the integers (B2i job named in the recipe)
   * and assumed here */
  __CPROVER_assume(i < n);
#else
  __CPROVER_assert(i < n, "vector::at index in range (would throw std::out_of_range)");
#endif
  return i;
}
static inline size_t vp_back(size_t n)
{
  __CPROVER_assert(n > 0, "vector::back/front on a non-empty vector");
  return n - 1;
}
#define VP_AT(i, n) vp_at((i), (n))
#define VP_BACK(n) vp_back(n)

/* maximum element count for locally allocated vectors (so that n * sizeof cannot overflow) */
#ifndef VP_MAXN
#define VP_MAXN ((size_t)1 << 40)
#endif

#define VP_DEFINE_VEC_OPS_STRUCT(NAME, ELEM)                                                        \
  static inline void vp_##NAME##_init(NAME *v) { v->p = 0; v->n = 0; v->cap = 0; }           \
  static inline void vp_##NAME##_reserve(NAME *v, size_t c)                                  \
  {                                                                                          \
    __CPROVER_assert(v->n == 0, "reserve on an empty vector (only pattern used)");           \
    __CPROVER_assert(c <= VP_MAXN, "vector size within the verified bound");                 \
    v->p = (ELEM *)malloc((c ? c : 1) * sizeof(ELEM)); v->cap = c;                           \
    __CPROVER_assume(v->p != 0);                                                             \
  }                                                                                          \
  static inline void vp_##NAME##_copy(NAME *v, const NAME *src)                              \
  {                                                                                          \
    /* copy of a vector: fresh storage, equal AT the ghost indices (sound over-approximation) */ \
    size_t n = src->n;                                                                       \
    __CPROVER_assert(n <= VP_MAXN, "vector size within the verified bound");                 \
    v->p = (ELEM *)malloc((n ? n : 1) * sizeof(ELEM)); v->n = n; v->cap = n;                 \
    __CPROVER_assume(v->p != 0);                                                             \
    VP_COPY_AT_GHOST(v->p, src->p, n)                                                        \
  }                                                                                          \
  static inline void vp_##NAME##_from_range(NAME *v, const NAME *src, size_t lo, size_t hi)   \
  {                                                                                          \
    /* std::vector(first, last): fresh storage of hi-lo elements, equal AT the ghost indices */ \
    __CPROVER_assert(lo <= hi && hi <= src->n, "iterator range inside the source vector");   \
    size_t n = hi - lo;                                                                      \
    __CPROVER_assert(n <= VP_MAXN, "vector size within the verified bound");                 \
    v->p = (ELEM *)malloc((n ? n : 1) * sizeof(ELEM)); v->n = n; v->cap = n;                 \
    __CPROVER_assume(v->p != 0);                                                             \
    VP_COPY_AT_GHOST(v->p, (src->p + lo), n)                                                 \
  }                                                                                          \
  static inline ELEM *vp_##NAME##_emplace(NAME *v)                                           \
  {                                                                                          \
    __CPROVER_assert(v->n < v->cap, "emplace_back within reserved capacity");                \
    v->n = v->n + 1;                                                                         \
    return &v->p[v->n - 1];                                                                  \
  }                                                                                          \
  static inline void vp_##NAME##_erase(NAME *v, size_t from, size_t to)                      \
  {                                                                                          \
    __CPROVER_assert(from <= to && to == v->n, "erase(begin()+k, end()) with k <= size()");  \
    v->n = from;                                                                             \
  }

#define VP_DEFINE_VEC_FILL(NAME, ELEM) \
  static inline void vp_##NAME##_fill(NAME *v, size_t n, ELEM x)                             \
  {                                                                                          \
    /* std::vector<X>(n, x): fresh storage holding x AT the ghost indices (sound over-approximation) */ \
    __CPROVER_assert(n <= VP_MAXN, "vector size within the verified bound");                 \
    v->p = (ELEM *)malloc((n ? n : 1) * sizeof(ELEM)); v->n = n; v->cap = n;                 \
    __CPROVER_assume(v->p != 0);                                                             \
    if (vp_gk < n) v->p[vp_gk] = x; if (vp_gj < n) v->p[vp_gj] = x; if (vp_gm < n) v->p[vp_gm] = x; \
  }                                                                                          \
  static inline void vp_##NAME##_assign_fill(NAME *v, size_t n, ELEM x) { vp_##NAME##_fill(v, n, x); }

#define VP_DEFINE_VEC_NEW(NAME, ELEM) \
  static inline void vp_##NAME##_new(NAME *v, size_t n)                                      \
  {                                                                                          \
    __CPROVER_assert(n <= VP_MAXN, "vector size within the verified bound");                 \
    v->p = (ELEM *)malloc((n ? n : 1) * sizeof(ELEM)); v->n = n; v->cap = n;                 \
    __CPROVER_assume(v->p != 0);                                                             \
    VP_ZERO_AT_GHOST(v->p, n)                                                                \
  }

#define VP_DEFINE_VEC_PUSH_SCALAR(NAME, ELEM) \
  static inline void vp_##NAME##_push(NAME *v, ELEM x)                                       \
  {                                                                                          \
    VP_PUSH_CAPACITY_CHECK(v)                                                                \
    v->p[v->n] = x; v->n = v->n + 1;                                                         \
  }

#define VP_DEFINE_VEC_OPS(NAME, ELEM) VP_DEFINE_VEC_OPS_STRUCT(NAME, ELEM) VP_DEFINE_VEC_NEW(NAME, ELEM) VP_DEFINE_VEC_PUSH_SCALAR(NAME, ELEM) VP_DEFINE_VEC_FILL(NAME, ELEM)
/* push_back on a vector of class objects (argument by pointer); the vector grows: fresh storage of n+1 elements,
 * old content preserved AT the ghost indices, new element at the end */
#define VP_DEFINE_VEC_PUSH_PTR(NAME, ELEM)                                                     \
  static inline void vp_##NAME##_push(NAME *v, const ELEM *x)                                  \
  {                                                                                          \
    size_t n = v->n;                                                                         \
    __CPROVER_assert(n < VP_MAXN, "vector size within the verified bound");                  \
    ELEM *q = (ELEM *)malloc((n + 1) * sizeof(ELEM));                                        \
    __CPROVER_assume(q != 0);                                                                \
    VP_COPY_AT_GHOST(q, v->p, n)                                                             \
    q[n] = *x;                                                                               \
    v->p = q; v->n = n + 1; v->cap = n + 1;                                                  \
  }

VP_DEFINE_VEC_OPS(vec_T, T)
VP_DEFINE_VEC_OPS(vec_sz, size_t)

/* std::copy(first, last, d_first) between vectors of T: the destination range becomes arbitrary except AT the ghost
 * offsets, where it equals the source (sound over-approximation, as for the vector copies) */
static inline void vp_copy_range(const vec_T *src, size_t lo, size_t hi, vec_T *dst, size_t dlo)
{
  __CPROVER_assert(lo <= hi && hi <= src->n, "std::copy source range inside the vector");
  size_t len = hi - lo;
  __CPROVER_assert(dlo <= dst->n && len <= dst->n - dlo, "std::copy destination range inside the vector");
#ifdef VP_NATIVE
  { size_t i_; for (i_ = 0; i_ < len; ++i_) dst->p[dlo + i_] = src->p[lo + i_]; }
#else
  T a = (vp_gk < len) ? src->p[lo + vp_gk] : (T)0, b = (vp_gj < len) ? src->p[lo + vp_gj] : (T)0;
  if (len > 0) __CPROVER_havoc_slice(dst->p + dlo, len * sizeof(T));
  if (vp_gk < len) dst->p[dlo + vp_gk] = a;
  if (vp_gj < len) dst->p[dlo + vp_gj] = b;
#endif
}
static inline size_t vp_max_sz(size_t a, size_t b) { return a < b ? b : a; }
static inline size_t vp_min_sz(size_t a, size_t b) { return a < b ? a : b; }

/* ---------------------------------------------------------------------------------------
 * Floating-point operators.  In abstract-FP mode (VP_AF) the extractor emits vp_fmul(a,b) etc. for
 * the C operators of functions listed in the job's `af` set, and these are UNINTERPRETED functions:
 * a proof then holds for every binary operation, in particular the IEEE one (sound), and formula
 * pins become congruence.  Without VP_AF the same text computes with the real operators (bit-precise).
 * ------------------------------------------------------------------------------------- */
#include "af_facts.h"
#if defined(VP_AF) && !defined(VP_NATIVE)
/* Only multiplication and division are abstracted (their bit-blasted circuits are what SAT cannot
 * handle); additions, subtractions, comparisons and conversions stay bit-precise.
 * VP_UFMUL / VP_UFDIV are the pure applications (usable inside contract clauses); vp_fmul / vp_fdiv, which
 * the extracted code calls, additionally assume the single-operation facts of af_facts.h -- each of which is
 * itself an obligation proved bit-precisely on the bare C operator (job ieee_facts). */
T __CPROVER_uninterpreted_fmul(T, T);
T __CPROVER_uninterpreted_fdiv(T, T);
#define VP_UFMUL(a, b) __CPROVER_uninterpreted_fmul((a), (b))
#define VP_UFDIV(a, b) __CPROVER_uninterpreted_fdiv((a), (b))
static inline T vp_fmul(T a, T b) { T r = __CPROVER_uninterpreted_fmul(a, b); VP_FMUL_FACTS(a, b, r) return r; }
static inline T vp_fdiv(T a, T b) { T r = __CPROVER_uninterpreted_fdiv(a, b); VP_FDIV_FACTS(a, b, r) return r; }
#else
#define VP_UFMUL(a, b) ((a) * (b))
#define VP_UFDIV(a, b) ((a) / (b))
#define vp_fmul(a, b) ((a) * (b))
#define vp_fdiv(a, b) ((a) / (b))
#endif
#define vp_fadd(a, b) ((a) + (b))
#define vp_fsub(a, b) ((a) - (b))
#define vp_i2f(a) ((T)(a))
#define vp_f2i(a) ((size_t)(a))
/* content of a VEGAS grid object as a function (accessor abstraction, see specs/vegas_pdf_bin_left_abs.spec) */
#ifndef VP_NATIVE
T __CPROVER_uninterpreted_grid(const void *, size_t, size_t);
#define vp_grid(pdf, d, b) __CPROVER_uninterpreted_grid((const void *)(pdf), (d), (b))
#endif
/* the u == 1 guard of vegas_icdf: 1 is replaced by nexttoward(1, 0) */
#define VP_NUDGE(u) (((u) == (T)1.0) ? __CPROVER_uninterpreted_nexttoward((u), (T)0) : (u))

/* ---------------------------------------------------------------------------------------
 * libm: assumed contracts (DESIGN.md section 4); natively the real functions
 * ------------------------------------------------------------------------------------- */
#ifdef VP_NATIVE
#define vp_pow(x, y) ((T)pow((x), (y)))
#define vp_log(x) ((T)log(x))
#define vp_sqrt(x) ((T)sqrt(x))
#define vp_fabs(x) ((T)fabs(x))
#define vp_fmax(x, y) ((T)fmax((x), (y)))
#define vp_isfinite(x) (isfinite(x))
#define vp_nexttoward(x, y) ((T)(sizeof(T) == sizeof(float) ? nexttowardf((x), (y)) : nexttoward((x), (y))))
#else

T __CPROVER_uninterpreted_pow(T x, T y);
T __CPROVER_uninterpreted_log(T x);
T vp_pow(T x, T y)
/* ASSUMED libm contract, used for the exponents hep-mc passes (0 < y <= 1 for channel weights, 0 <= y <= 3 for VEGAS):
 * a deterministic function; for finite x >= 0 and finite y > 0 the result is >= 0 and not NaN; it is 0 for x == 0;
 * for y <= 1 it is finite and positive for positive x (no overflow, and x^y >= min(x,1) cannot underflow). */
__CPROVER_ensures(BEQ(__CPROVER_return_value, __CPROVER_uninterpreted_pow(x, y)))
__CPROVER_ensures((VP_FINITE(x) && x >= 0 && VP_FINITE(y) && y > 0) ==> (__CPROVER_return_value >= 0))
__CPROVER_ensures((x == 0 && VP_FINITE(y) && y > 0) ==> (__CPROVER_return_value == 0))
__CPROVER_ensures((VP_FINITE(x) && x >= 0 && y > 0 && y <= 1) ==> VP_FINITE(__CPROVER_return_value))
__CPROVER_ensures((VP_FINITE(x) && x > 0 && y > 0 && y <= 1) ==> (__CPROVER_return_value > 0))
__CPROVER_assigns();

T vp_log(T x)
__CPROVER_ensures(__CPROVER_return_value == __CPROVER_uninterpreted_log(x) || (VP_ISNAN(__CPROVER_return_value) && VP_ISNAN(__CPROVER_uninterpreted_log(x))))
__CPROVER_assigns();
T vp_sqrt(T x)
__CPROVER_ensures((x >= 0) ==> (__CPROVER_return_value >= 0))
__CPROVER_ensures((x == 0) ==> (__CPROVER_return_value == 0))
__CPROVER_ensures((x < 0 || VP_ISNAN(x)) ==> VP_ISNAN(__CPROVER_return_value))
__CPROVER_ensures((VP_FINITE(x) && x >= 0) ==> VP_FINITE(__CPROVER_return_value))
__CPROVER_assigns();
static inline T vp_fabs(T x) { return (x < 0 || (x == 0 && 1 / x < 0)) ? -x : x; }
/* fmax: IEEE maxNum: if one argument is NaN the other is returned */
static inline T vp_fmax(T x, T y) { return VP_ISNAN(x) ? y : (VP_ISNAN(y) ? x : (x < y ? y : x)); }
static inline _Bool vp_isfinite(T x) { return VP_FINITE(x); }
T __CPROVER_uninterpreted_nexttoward(T, T);
static inline T vp_nexttoward(T x, T y)
{
  /* assumed libm contract: nexttoward(1, 0) is a value in (1/2, 1) */
  T r = __CPROVER_uninterpreted_nexttoward(x, y);
  __CPROVER_assume(!(x == 1 && y == 0) || (r < 1 && r > (T)0.5));
  return r;
}
#endif

#endif
