/* vector of random number engines (chkpt_with_rng::generators_) */
#ifndef VP_RNGVEC_H
#define VP_RNGVEC_H
#ifndef VP_RNG_DEFINED
#define VP_RNG_DEFINED
struct vp_rng { size_t pos; };
#endif
VP_DECLARE_VEC(vec_vp_rng, struct vp_rng)
VP_DEFINE_VEC_OPS_STRUCT(vec_vp_rng, struct vp_rng)
VP_DEFINE_VEC_PUSH_PTR(vec_vp_rng, struct vp_rng)
#endif
