/* Collaborator stubs (user code, virtual calls) and their ghost logs.  Included after the generated
 * struct definitions.  The stubs have BODIES made of nondeterministic choices (not contracts) so that
 * the ghost copy of a returned value is the very same symbol as the returned value (bit-identical, NaN
 * payload and sign of zero included). */
#ifndef VP_STUBS_H
#define VP_STUBS_H

/* ghost logs */
extern size_t vp_invocations;     /* integrand evaluations */
extern size_t vp_weight_calls;    /* evaluations of point.weight() */
extern size_t vp_acc_calls;       /* calls of hep::accumulate */
extern T vp_last_f;               /* value returned by the last integrand evaluation */
extern T vp_last_w;               /* value returned by the last point.weight() */
extern T vp_last_acc;             /* value handed to the last hep::accumulate */

#ifndef VP_NATIVE
T nondet_T(void);
size_t nondet_size_t(void);

/* the user's integrand: returns ANY value of T (NaN, +-inf, +-0 included) */
static inline T vp_integrand_call(const struct mc_point *point)
{
  T x = nondet_T();
#ifdef VP_MC_PROTOCOL
  __CPROVER_assert(vp_phase == 1, "C17.order: the integrand runs after the coordinates were computed");
  vp_phase = 2;
#endif
  vp_invocations = vp_invocations + 1;
  vp_last_f = x;
  return x;
}

/* virtual mc_point<T>::weight(): any value; multi_channel_point2 evaluates the map lazily here */
static inline T mc_point_weight(const struct mc_point *point)
{
  T x = nondet_T();
  vp_weight_calls = vp_weight_calls + 1;
  vp_last_w = x;
  return x;
}

#ifdef VP_WITH_PROJECTOR
/* The user's integrand with a projector: it may call projector.add(...) any number of times, i.e.
 * add_to_1d/2d_distribution, whose contracts (jobs dist1d/dist2d) guarantee that only bin slots
 * (index >= 2 of sums_, >= 1 of compensations_/counters) change: those are havocked here. */
static inline T vp_integrand_call_proj(const struct mc_point *point, struct projector *projector)
{
  struct accumulator_dist *a = projector->accumulator_;
  T x = nondet_T();
  vp_invocations = vp_invocations + 1;
  vp_last_f = x;
  /* havoc everything, then restore the integral's own slots: the restored values are the very same symbols */
  { T s0 = a->sums_.p[0], s1 = a->sums_.p[1]; __CPROVER_havoc_object(a->sums_.p); a->sums_.p[0] = s0; a->sums_.p[1] = s1; }
  { T c0 = a->compensations_.p[0]; __CPROVER_havoc_object(a->compensations_.p); a->compensations_.p[0] = c0; }
  { size_t n0 = a->non_zero_calls_.p[0]; __CPROVER_havoc_object(a->non_zero_calls_.p); a->non_zero_calls_.p[0] = n0; }
  { size_t f0 = a->finite_calls_.p[0]; __CPROVER_havoc_object(a->finite_calls_.p); a->finite_calls_.p[0] = f0; }
  return x;
}
#endif
#endif
#endif

/* ---- random numbers ---------------------------------------------------------------------------
 * std::generate_canonical<T, digits>(g): ASSUMED contract (libstdc++): returns a value in [0,1] (1 can be
 * produced for float by a known library defect, which VEGAS guards against) and advances the engine by a
 * fixed number of raw draws; the ghost position counts canonical numbers. */
#ifndef VP_RNG_DEFINED
#define VP_RNG_DEFINED
struct vp_rng { size_t pos; };
#endif
extern size_t vp_draws;
extern T vp_last_u;
#ifndef VP_NATIVE
static inline T vp_generate_canonical(struct vp_rng *g)
{
  T u = nondet_T();
  __CPROVER_assume(u >= 0 && u <= 1);
  vp_draws = vp_draws + 1;
  g->pos = g->pos + 1;
  vp_last_u = u;
  return u;
}
#endif

/* ---- the user's channel map (multi-channel) -------------------------------------------------------
 * map(channel, random_numbers, coordinates, enabled_channels, densities, action): user code.  It may write the
 * coordinate and density buffers and returns any value (the jacobian for calculate_densities).  Ghost log of the
 * protocol: number of calls per action and the arguments of the last call. */
#define VP_ENUM_calculate_coordinates 0
#define VP_ENUM_calculate_densities 1
extern size_t vp_map_calls, vp_coord_calls, vp_dens_calls;
extern int vp_map_action;
extern size_t vp_map_channel;
extern const void *vp_map_rn, *vp_map_coords, *vp_map_enabled, *vp_map_dens;
extern T vp_map_ret;
/* per-point protocol automaton: 0 idle -> 1 map(coordinates) -> 2 integrand running/ran -> 3 map(densities) */
extern int vp_phase;
extern size_t vp_c_channel; extern const void *vp_c_rn, *vp_c_coords, *vp_c_enabled, *vp_c_dens;
#ifndef VP_NATIVE
static inline T vp_map_call(size_t channel, const vec_T *rn, vec_T *coords, const vec_sz *enabled, vec_T *dens, int action)
{
  T x = nondet_T();
  vp_map_calls = vp_map_calls + 1;
  if (action == VP_ENUM_calculate_coordinates) vp_coord_calls = vp_coord_calls + 1; else vp_dens_calls = vp_dens_calls + 1;
#ifdef VP_MC_PROTOCOL
  if (action == VP_ENUM_calculate_coordinates)
  {
    __CPROVER_assert(vp_phase == 0, "C17.order: the map is asked for coordinates first, once per point");
    vp_phase = 1;
    vp_c_channel = channel; vp_c_rn = rn; vp_c_coords = coords; vp_c_enabled = enabled; vp_c_dens = dens;
  }
  else
  {
    __CPROVER_assert(vp_phase == 2, "C17.order: the map is asked for densities only after the integrand started, at most once");
    vp_phase = 3;
  }
#endif
  vp_map_action = action; vp_map_channel = channel;
  vp_map_rn = rn; vp_map_coords = coords; vp_map_enabled = enabled; vp_map_dens = dens;
  __CPROVER_havoc_object(coords->p);
  __CPROVER_havoc_object(dens->p);
  vp_map_ret = x;
  return x;
}
#endif

