/* stubs for the MPI callback job: the wrapped hep::callback (its decision is job callback_decision) and MPI_Comm_rank */
#ifndef VP_STUBS_MPI_H
#define VP_STUBS_MPI_H
#define VP_ENUM_silent 0
#define VP_ENUM_silent_and_write_chkpt 1
#define VP_ENUM_verbose 2
#define VP_ENUM_verbose_and_write_chkpt 3
struct callback { int mode_; };
extern size_t vp_inner_calls; extern _Bool vp_inner_ret; extern const void *vp_inner_arg; extern int vp_inner_mode_seen; extern int vp_rank;
_Bool nondet_bool(void); int nondet_int(void);
static inline int vp_callback_get_mode(const struct callback *c) { return c->mode_; }
static inline void vp_callback_set_mode(struct callback *c, int m) { c->mode_ = m; }
/* MPI_Comm_rank: ASSUMED to store the caller's rank (>= 0) */
static inline int vp_mpi_comm_rank(int comm, int *rank) { *rank = vp_rank; return 0; }
/* the wrapped callback: any decision; the log records the mode it ran with */
static inline _Bool vp_inner_callback_call(struct callback *c, const void *chkpt)
{
  _Bool r = nondet_bool();
  vp_inner_calls = vp_inner_calls + 1; vp_inner_ret = r; vp_inner_arg = chkpt; vp_inner_mode_seen = c->mode_;
  return r;
}
#endif
