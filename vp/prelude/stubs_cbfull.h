/* stubs for the full hep::callback::operator() job */
#ifndef VP_STUBS_CBFULL_H
#define VP_STUBS_CBFULL_H
#define VP_ENUM_silent 0
#define VP_ENUM_silent_and_write_chkpt 1
#define VP_ENUM_verbose 2
#define VP_ENUM_verbose_and_write_chkpt 3
typedef struct vp_ostream { size_t writes; } vp_ostream;
typedef struct vp_ofstream { vp_ostream base; const void *name; } vp_ofstream;
extern vp_ostream vp_cout;
extern struct mc_result vp_combined;   /* the combined result the stub handed out */
T __CPROVER_uninterpreted_sqrt(T);
/* sqrt as a deterministic function (only determinism matters in the callback job) */
static inline T vp_sqrt_det(T x) { return __CPROVER_uninterpreted_sqrt(x); }
extern size_t vp_combine_calls, vp_combine_lo, vp_combine_hi, vp_file_opens, vp_file_writes, vp_summary_calls; extern const void *vp_file_arg, *vp_file_name, *vp_combine_vec;
_Bool nondet_bool(void); T nondet_T(void); size_t nondet_size_t(void);
#define VP_PUT(s, x) ((void)(x), (s))
#define VP_TYPE_TRAIT() nondet_bool()
/* hep::accumulate<weighted_with_variance>(begin, end): the combined result (what it is: job weighted_with_variance): any result */
static inline void vp_combine_call(struct plain_result *dst, const vec_plain_result *v, size_t lo, size_t hi)
{
  vp_combine_calls = vp_combine_calls + 1; vp_combine_vec = v; vp_combine_lo = lo; vp_combine_hi = hi;
  dst->base.calls_ = nondet_size_t(); dst->base.non_zero_calls_ = nondet_size_t(); dst->base.finite_calls_ = nondet_size_t();
  dst->base.sum_ = nondet_T(); dst->base.sum_of_squares_ = nondet_T(); dst->distributions_.n = 0; dst->distributions_.p = 0; dst->distributions_.cap = 0;
  vp_combined = dst->base;
}
static inline T vp_chi_square_call(const vec_plain_result *v, size_t lo, size_t hi) { return nondet_T(); }
/* printing of the multi-channel summary (not extracted): writes to the stream only */
static inline void multi_channel_summary(const void *chkpt, vp_ostream *out) { vp_summary_calls = vp_summary_calls + 1; }
static inline void vp_ofstream_open(vp_ofstream *f, const vp_string *name) { f->name = name; f->base.writes = 0; vp_file_opens = vp_file_opens + 1; vp_file_name = name; }
/* chkpt.serialize(out): the checkpoint text goes to the stream (the text format: C05) */
static inline void vp_chkpt_serialize_call(const void *chkpt, vp_ostream *out) { vp_file_writes = vp_file_writes + 1; vp_file_arg = chkpt; }
#endif
