#ifndef VP_STUBS_CB2_H
#define VP_STUBS_CB2_H
/* ---- the callback handed to the integrators: user code (or hep::callback): any decision; ghost log ---------------------- */
extern size_t vp_cb_calls, vp_cb_seen_n; extern _Bool vp_cb_ret; extern const void *vp_cb_arg;
#ifndef VP_NATIVE
_Bool nondet_bool(void);
#define vp_callback_call(chk) vp_callback_call_((const void *)(chk), (chk)->base.base.results_.n)
static inline _Bool vp_callback_call_(const void *chk, size_t results_n)
{
  _Bool r = nondet_bool();
  vp_cb_calls = vp_cb_calls + 1; vp_cb_seen_n = results_n; vp_cb_arg = chk; vp_cb_ret = r;
  return r;
}
/* returning the checkpoint by value: in the driver proofs only its lengths are observed */
#define vp_chk2_copy_abs(d, s) do { (d)->base.base.results_.n = (s)->base.base.results_.n; (d)->generators_.n = (s)->generators_.n; } while (0)
#endif
#endif
