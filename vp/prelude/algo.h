/* C reference implementations of the std:: algorithms the extracted code calls.  Their contracts are what
 * callers see (replace-call-with-contract); the reference bodies are verified against these contracts in
 * jobs `partial_sum` / `lower_bound`.  Trusted: libstdc++'s algorithms behave like these references
 * (ISO C++ [partial.sum], [lower.bound]). */
#ifndef VP_ALGO_H
#define VP_ALGO_H

/* std::partial_sum(first, last, d_first): acc = *first; *d = acc; then acc = acc + *i; *++d = acc  (left fold).
 * Stated for the use in discrete_distribution: source [0,n), destination [0,n), n >= 1.
 * Hypothesis (assumed for exactly the elements read): every addend is finite and >= 0.
 * Ghost index vp_gk: an arbitrary position. */
void vp_partial_sum(const vec_T *src, size_t lo, size_t hi, vec_T *dst, size_t dlo)
__CPROVER_requires(lo == 0 && dlo == 0 && hi >= 1 && hi <= VP_NMAX)
__CPROVER_requires(__CPROVER_is_fresh(src, sizeof(*src)) && __CPROVER_is_fresh(src->p, hi * sizeof(T)))
__CPROVER_requires(__CPROVER_is_fresh(dst, sizeof(*dst)) && __CPROVER_is_fresh(dst->p, hi * sizeof(T)))
__CPROVER_requires(src->n == hi && dst->n == hi)
__CPROVER_assigns(__CPROVER_object_whole(dst->p))
/* the recurrence at the ghost position */
__CPROVER_ensures((vp_gk == 0) ==> BEQ(dst->p[0], src->p[0]))                                                  /*@ C09.psum_first */
__CPROVER_ensures((vp_gk >= 1 && vp_gk < hi) ==> BEQ(dst->p[vp_gk], dst->p[vp_gk - 1] + src->p[vp_gk]))     /*@ C09.psum_step */
/* consequences for non-negative finite addends */
__CPROVER_ensures((vp_gk < hi) ==> (dst->p[vp_gk] >= 0))                                                      /*@ C09.psum_nonneg */
__CPROVER_ensures((vp_gk >= 1 && vp_gk < hi) ==> (dst->p[vp_gk - 1] <= dst->p[vp_gk]))                        /*@ C09.pre_mono */
__CPROVER_ensures((vp_gk >= 1 && vp_gk < hi && src->p[vp_gk] == 0) ==> (dst->p[vp_gk] == dst->p[vp_gk - 1])) /*@ C09.pre_zero */
__CPROVER_ensures((vp_gk < hi) ==> (dst->p[vp_gk] <= dst->p[hi - 1]))                                         /*@ C09.psum_below_total */
__CPROVER_ensures((vp_gk < hi && src->p[vp_gk] > 0) ==> (dst->p[vp_gk] > 0))                                  /*@ C09.psum_positive */
#ifdef VP_ALGO_BODIES
{
  __CPROVER_assume(VP_FINITE(src->p[lo]) && src->p[lo] >= 0);
  T acc = src->p[lo];
  dst->p[dlo] = acc;
  for (size_t i = lo + 1; i != hi; ++i)
  __CPROVER_assigns(i, acc, __CPROVER_object_whole(dst->p))
  __CPROVER_loop_invariant(1 <= i && i <= hi && BEQ(acc, dst->p[i - 1]) && acc >= 0)
  __CPROVER_loop_invariant((vp_gk == 0) ==> BEQ(dst->p[0], src->p[0]))
  __CPROVER_loop_invariant((vp_gk >= 1 && vp_gk < i) ==> BEQ(dst->p[vp_gk], dst->p[vp_gk - 1] + src->p[vp_gk]))
  __CPROVER_loop_invariant((vp_gk < i) ==> (dst->p[vp_gk] >= 0 && dst->p[vp_gk] <= acc))
  __CPROVER_loop_invariant((vp_gk >= 1 && vp_gk < i) ==> (dst->p[vp_gk - 1] <= dst->p[vp_gk]))
  __CPROVER_loop_invariant((vp_gk >= 1 && vp_gk < i && src->p[vp_gk] == 0) ==> (dst->p[vp_gk] == dst->p[vp_gk - 1]))
  __CPROVER_loop_invariant((vp_gk < i && src->p[vp_gk] > 0) ==> (dst->p[vp_gk] > 0))
  __CPROVER_decreases(hi - i)
  {
    __CPROVER_assume(VP_FINITE(src->p[i]) && src->p[i] >= 0);
    acc = acc + src->p[i];
    dst->p[dlo + (i - lo)] = acc;
  }
}
#else
;
#endif

/* std::accumulate(first, last, init): left fold with +.  ASSUMED contract: a deterministic function of the range
 * content (uninterpreted); nothing else is known about the value. */
T __CPROVER_uninterpreted_accumulate(const void *, size_t, size_t, T);
T vp_accumulate(const vec_T *v, size_t lo, size_t hi, T init)
__CPROVER_requires(lo <= hi && hi <= v->n)
__CPROVER_assigns()
__CPROVER_ensures(BEQ(__CPROVER_return_value, __CPROVER_uninterpreted_accumulate((const void *)v->p, lo, hi, init)))
;
/* std::lower_bound(first, last, value) on a range partitioned with respect to `element < value`:
 * returns the partition point r in [lo, hi]: every element before r is < value, the element at r is not.
 * ASSUMED contract (the library's binary search is not extracted); precondition = the range is sorted
 * (non-decreasing), which for the cumulative weights is obligation C09.mono. Ghost index vp_gj. */
size_t vp_lower_bound(const vec_T *v, size_t lo, size_t hi, T value)
__CPROVER_requires(lo == 0 && hi == v->n)
__CPROVER_assigns()
__CPROVER_ensures(__CPROVER_return_value <= hi)
__CPROVER_ensures((vp_gj < __CPROVER_return_value) ==> (v->p[vp_gj] < value))
__CPROVER_ensures((__CPROVER_return_value < hi) ==> !(v->p[__CPROVER_return_value] < value))
;
/* std::upper_bound: partition point with respect to `!(value < element)` */
size_t vp_upper_bound(const vec_T *v, size_t lo, size_t hi, T value)
__CPROVER_requires(lo == 0 && hi == v->n)
__CPROVER_assigns()
__CPROVER_ensures(__CPROVER_return_value <= hi)
__CPROVER_ensures((vp_gj < __CPROVER_return_value) ==> !(value < v->p[vp_gj]))
__CPROVER_ensures((__CPROVER_return_value < hi) ==> (value < v->p[__CPROVER_return_value]))
;
#endif
