/* Names in the ghost token stream (C05: "name on its own line", distribution_parameters).
 * A std::string is a ghost identity (opaque.h) with two attributes the text format is sensitive to; both are uninterpreted
 * functions of the identity, so a lemma holds for every name.  Names containing a newline are excluded by the property.
 * ASSUMED library contract: operator<<(string) writes the characters verbatim; `in >> std::ws` skips ALL whitespace
 * (blanks and newlines); std::getline(in, s) reads up to and removes the next newline. */
#ifndef VP_STREAM_STR_H
#define VP_STREAM_STR_H
#define VP_TOK_STR 4
_Bool __CPROVER_uninterpreted_str_empty(size_t id);
_Bool __CPROVER_uninterpreted_str_leading_blank(size_t id);
#define VP_STR_EMPTY(id) __CPROVER_uninterpreted_str_empty(id)
#define VP_STR_LEADING_BLANK(id) (!VP_STR_EMPTY(id) && __CPROVER_uninterpreted_str_leading_blank(id))
/* line structure of the text: nl[i] = a newline was written between token i-1 and token i */
struct vp_lines { _Bool nl[VP_NTOK + 1]; _Bool ws_skipped; _Bool desync; };
static struct vp_lines vp_lines;
static inline void vp_lines_init(void) { struct vp_lines z = {{0}, 0, 0}; vp_lines = z; }
size_t nondet_size_t(void);
static inline vp_stream *vp_os_nl(vp_stream *s) { s->pending_sep = 1; vp_lines.nl[s->n] = 1; return s; }
static inline vp_stream *vp_os_put_str(vp_stream *s, const vp_string *x)
{
  __CPROVER_assert(s->n < VP_NTOK, "token stream capacity of the lemma suffices");
  s->tok[s->n].kind = VP_TOK_STR; s->tok[s->n].u = x->id; s->tok[s->n].r = 0; s->tok[s->n].prec = s->prec; s->tok[s->n].sci = s->sci; s->tok[s->n].sep = s->pending_sep;
  s->n = s->n + 1; s->pending_sep = 0;
  return s;
}
/* std::string's default constructor: the empty string; some identity with the attribute "empty" */
static inline void vp_string_ctor0(vp_string *x) { size_t e = nondet_size_t(); __CPROVER_assume(VP_STR_EMPTY(e)); x->id = e; }
static inline vp_stream *vp_is_ws(vp_stream *s) { vp_lines.ws_skipped = 1; return s; }
static inline vp_stream *vp_is_getline(vp_stream *s, vp_string *x)
{
  __CPROVER_assert(s->pos < s->n, "C05.align: the reader does not run past what the writer produced");
  __CPROVER_assert(s->tok[s->pos].kind == VP_TOK_STR, "C05.align: a name is read where a name was written");
  __CPROVER_assert(s->pos + 1 <= VP_NTOK && vp_lines.nl[s->pos + 1], "C05.name_line: the name is terminated by a newline (getline reads to the end of the line)");
  size_t id = s->tok[s->pos].u;
  if (vp_lines.ws_skipped && (VP_STR_EMPTY(id) || VP_STR_LEADING_BLANK(id)))
  {
    /* leading blanks are skipped with the separator; an empty name makes getline take the NEXT line for the name */
    size_t other = nondet_size_t();
    __CPROVER_assume(other != id);
    x->id = other;
    if (VP_STR_EMPTY(id)) vp_lines.desync = 1;
  }
  else
  {
    __CPROVER_assert(vp_lines.ws_skipped || s->pos == 0 || !s->tok[s->pos].sep || vp_lines.nl[s->pos], "C05.name_start: without std::ws the separator before the name must be consumed by the reader");
    x->id = id;
  }
  vp_lines.ws_skipped = 0;
  s->pos = s->pos + 1;
  return s;
}
/* the header line "# <result name> 1 <max_digits10>\n": a '#' token, skipped by the reader with peek() / ignore(max, '\n') */
#define VP_TOK_HASH 5
static inline vp_stream *vp_os_put_hash(vp_stream *s)
{
  __CPROVER_assert(s->n < VP_NTOK, "token stream capacity of the lemma suffices");
  s->tok[s->n].kind = VP_TOK_HASH; s->tok[s->n].u = 0; s->tok[s->n].r = 0; s->tok[s->n].prec = s->prec; s->tok[s->n].sci = s->sci; s->tok[s->n].sep = s->pending_sep;
  s->n = s->n + 1; s->pending_sep = 1;
  return s;
}
static inline int vp_peek_tok(vp_stream *s) { return (s->pos < s->n && s->tok[s->pos].kind == VP_TOK_HASH) ? '#' : 0; }
static inline void vp_ignore_line(vp_stream *s)
{
  /* ignore(max, '\n'): everything up to and including the next newline */
  size_t j = s->pos + 1;
  while (j < s->n && !vp_lines.nl[j]) j = j + 1;
  s->pos = j;
}
#define vp_istream_peek(in) vp_peek_tok(in)
#define vp_istream_ignore(in, count, delim) vp_ignore_line(in)
#endif
