/* Bit-precise proofs of the single-operation facts of af_facts.h on the real C operators. */
#include "vp.h"
T nondet_T(void);
#define MUL_LEMMA(name, hyp, concl) void lemma_##name(void) { T a = nondet_T(), b = nondet_T(); T r = a * b; __CPROVER_assume(hyp); __CPROVER_assert(concl, "L-" #name ": " #hyp " ==> " #concl); }
#define DIV_LEMMA(name, hyp, concl) void lemma_##name(void) { T a = nondet_T(), b = nondet_T(); T r = a / b; __CPROVER_assume(hyp); __CPROVER_assert(concl, "L-" #name ": " #hyp " ==> " #concl); }
FMUL_FACTS(MUL_LEMMA)
FDIV_FACTS(DIV_LEMMA)
