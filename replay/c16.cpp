// Native replay for C16: evaluates the tiling property on the REAL hep::discard_before /
// hep::discard_after and on the sub_calls / discard-argument fragments of the three MPI drivers
// (linked in as the natively compiled extracted text: they live inside functions that need an MPI runtime).
#include "hep/mc/generator_helper.hpp"
#include "vp_replay.hpp"

extern "C" {
std::size_t mpi_plain_sub_calls(std::size_t, int, int);
std::size_t mpi_vegas_sub_calls(std::size_t, int, int);
std::size_t mpi_multi_channel_sub_calls(std::size_t, int, int);
std::size_t mpi_plain_discard1(std::size_t, int, int, std::size_t);
std::size_t mpi_vegas_discard1(std::size_t, int, int, std::size_t);
std::size_t mpi_multi_channel_discard1(std::size_t, int, int, std::size_t);
std::size_t mpi_plain_discard2(std::size_t, int, int, std::size_t, std::size_t);
std::size_t mpi_vegas_discard2(std::size_t, int, int, std::size_t, std::size_t);
std::size_t mpi_multi_channel_discard2(std::size_t, int, int, std::size_t, std::size_t);
}

// the fragments call discard_before/discard_after: route them to the REAL functions
extern "C" std::size_t discard_before(std::size_t t, std::size_t r, std::size_t w) { return hep::discard_before(t, r, w); }
extern "C" std::size_t discard_after(std::size_t t, std::size_t c, std::size_t r, std::size_t w) { return hep::discard_after(t, c, r, w); }

extern "C" int vp_set_free(const char*, unsigned long long);
typedef std::size_t (*sub_t)(std::size_t, int, int);
typedef std::size_t (*d1_t)(std::size_t, int, int, std::size_t);
typedef std::size_t (*d2_t)(std::size_t, int, int, std::size_t, std::size_t);

static int bad = 0;
#define CHECK(c, msg) do { if (!(c)) { ++bad; if (bad < 20) std::cout << "violated: " << msg << " (total=" << total << " world=" << world << " rank=" << r << ")\n"; } } while (0)

int main(int argc, char** argv)
{
    vp_inputs in(argv[1]);
    for (auto const& kv : in.v) if (kv.first.compare(0, 8, "vp_free_") == 0) vp_set_free(kv.first.c_str(), in.u64(kv.first));
    std::size_t const total = in.u64("total");
    int const world = int(in.u64("world", 1));
    std::size_t usage = in.u64("usage", 1);
    if (usage == 0 || (total != 0 && usage > std::size_t(-1) / (total ? total : 1))) usage = 1;
    if (world < 1) { std::cout << "model outside the hypotheses\n"; return 0; }
    sub_t subs[3] = { mpi_plain_sub_calls, mpi_vegas_sub_calls, mpi_multi_channel_sub_calls };
    d1_t d1s[3] = { mpi_plain_discard1, mpi_vegas_discard1, mpi_multi_channel_discard1 };
    d2_t d2s[3] = { mpi_plain_discard2, mpi_vegas_discard2, mpi_multi_channel_discard2 };
    char const* names[3] = { "mpi_plain", "mpi_vegas", "mpi_multi_channel" };
    std::vector<int> ranks;
    if (world <= 100000) for (int r = 0; r < world; ++r) ranks.push_back(r);
    else { ranks.push_back(int(in.u64("r"))); ranks.push_back(int(in.u64("r2"))); ranks.push_back(0); ranks.push_back(world - 1); }
    for (int d = 0; d != 3; ++d)
    {
        std::size_t expected_before = 0;
        std::size_t lo = std::size_t(-1), hi = 0;
        for (int r : ranks)
        {
            std::size_t const before = hep::discard_before(total, r, world);
            std::size_t const sub = subs[d](total, r, world);
            std::size_t const after = hep::discard_after(total, sub, r, world);
            std::size_t const next = hep::discard_before(total, std::size_t(r) + 1, world);
            lo = sub < lo ? sub : lo; hi = sub > hi ? sub : hi;
            if (world <= 100000) { CHECK(before == expected_before, names[d] << ": share does not start where the previous one ended"); expected_before = before + sub; }
            CHECK(before + sub == next, names[d] << ": before(r)+sub(r) != before(r+1)");
            CHECK(before + sub + after == total, names[d] << ": before+sub+after != total");
            CHECK(sub == total / world || sub == total / world + 1, names[d] << ": share is not floor or floor+1");
            CHECK(d1s[d](total, r, world, usage) == usage * before, names[d] << ": first discard is not usage*before");
            CHECK(d1s[d](total, r, world, usage) + usage * sub + d2s[d](total, r, world, usage, sub) == usage * total, names[d] << ": rank does not end at the common stream position");
        }
        int r = 0;
        CHECK(hep::discard_before(total, 0, world) == 0, "before(0) != 0");
        CHECK(hep::discard_before(total, world, world) == total, "before(world) != total");
        if (world <= 100000) { CHECK(expected_before == total, names[d] << ": shares do not sum to the total"); CHECK(hi - lo <= 1, names[d] << ": shares differ by more than one"); }
    }
    std::cout << (bad ? "property violated on the real code\n" : "property holds for these inputs\n");
    return bad ? 1 : 0;
}
