// Shared helpers of the native replay harnesses: they read the flat input file written by
// vp/native.py ("name binary data" per line; binary is the CBMC bit pattern or '-').
#ifndef VP_REPLAY_HPP
#define VP_REPLAY_HPP
#include <cstdint>
#include <cstdio>
#include <cstring>
#include <fstream>
#include <iostream>
#include <map>
#include <sstream>
#include <string>
#include <vector>
#ifndef VP_REAL
#define VP_REAL double
#endif
typedef VP_REAL T;

struct vp_inputs
{
    std::map<std::string, std::pair<std::string, std::string>> v;   // name -> (binary, data)
    std::string obligation;

    explicit vp_inputs(char const* path)
    {
        std::ifstream in(path);
        std::string line;
        while (std::getline(in, line))
        {
            std::istringstream ls(line);
            std::string a, b, c;
            ls >> a >> b >> c;
            if (a == "obligation") { obligation = b; continue; }
            if (!a.empty()) v[a] = std::make_pair(b, c);
        }
    }
    bool has(std::string const& n) const { return v.count(n) != 0; }
    // last path component match: CBMC names locals as plain identifiers inside the harness
    unsigned long long u64(std::string const& n, unsigned long long dflt = 0) const
    {
        auto it = v.find(n);
        if (it == v.end()) return dflt;
        std::string const& b = it->second.first;
        if (b != "-" && !b.empty())
        {
            unsigned long long r = 0;
            for (char ch : b) r = (r << 1) | (ch == '1');
            return r;
        }
        std::string d = it->second.second;
        bool neg = !d.empty() && d[0] == '-';
        unsigned long long r = std::strtoull(d.c_str() + (neg ? 1 : 0), nullptr, 10);
        return neg ? (0ULL - r) : r;
    }
    T real(std::string const& n, T dflt = T()) const
    {
        auto it = v.find(n);
        if (it == v.end()) return dflt;
        std::string const& b = it->second.first;
        if (b != "-" && !b.empty())
        {
            if (b.size() == 64) { std::uint64_t r = 0; for (char ch : b) r = (r << 1) | (ch == '1'); double d; std::memcpy(&d, &r, 8); return T(d); }
            if (b.size() == 32) { std::uint32_t r = 0; for (char ch : b) r = (r << 1) | (ch == '1'); float f; std::memcpy(&f, &r, 4); return T(f); }
        }
        return T(std::strtod(it->second.second.c_str(), nullptr));
    }
};
#endif
