// Native replay / search for C09 on the REAL hep::discrete_distribution: the property predicate is
//   valid index, never a zero-weight channel, cumulative interval membership (closed), for u in [0,1).
// The verifier's counterexample (if it carries weights and u) is tried first; abstract counterexamples may not be
// realisable, so a grid of small weight vectors x boundary values of u is then searched on the real code.
#include "hep/mc/discrete_distribution.hpp"
#include "vp_replay.hpp"
#include <cmath>
#include <limits>

// engine whose single output makes generate_canonical return (approximately) a chosen u; exact for u = k * 2^-64
struct scripted_engine
{
    typedef std::uint64_t result_type;
    result_type v;
    static constexpr result_type min() { return 0; }
    static constexpr result_type max() { return ~result_type(0); }
    result_type operator()() { return v; }
};

static int bad = 0;

static void check(std::vector<T> const& w, std::uint64_t raw, bool verbose)
{
    hep::discrete_distribution<std::size_t, T> d(w.begin(), w.end());
    scripted_engine e = { raw }, e2 = { raw };
    T const u = std::generate_canonical<T, std::numeric_limits<T>::digits>(e2);
    if (!(u >= 0 && u < 1)) return;   // outside the property's domain (library defect for u == 1 is VEGAS's business)
    std::size_t const r = d(e);
    // independent cumulative sums (same left fold, same normalisation by the total)
    std::vector<T> c(w.size());
    T acc = T();
    for (std::size_t i = 0; i != w.size(); ++i) { acc = (i == 0) ? w[0] : acc + w[i]; c[i] = acc; }
    T const tot = c.back();
    for (auto& x : c) x /= tot;
    char const* why = nullptr;
    if (r >= w.size()) why = "C09.valid: index is not a valid channel";
    else if (w[r] == T()) why = "C09.enabled: zero-weight channel selected";
    else if (r > 0 && !(c[r - 1] <= u)) why = "C09.interval_low";
    else if (!(u <= c[r])) why = "C09.interval_high";
    if (why || verbose)
    {
        std::cout << (why ? "  VIOLATED on the real code: " : "  ok: ") << (why ? why : "") << " weights {";
        for (auto x : w) std::cout << x << " ";
        std::cout << "} u=" << u << " (raw " << raw << ") -> channel " << r << "\n";
    }
    if (why) ++bad;
}

int main(int argc, char** argv)
{
    vp_inputs in(argv[1]);
    // verifier inputs: witnesses vp_w_w0..3 (weights), n, vp_last_u
    if (in.has("vp_last_u"))
    {
        std::size_t n = std::size_t(in.u64("n", 2));
        if (n == 0 || n > 4) n = 4;
        std::vector<T> w(n, T(1));
        for (std::size_t i = 0; i != n; ++i) { std::string k = "vp_w_w" + std::to_string(i); if (in.has(k)) w[i] = in.real(k); }
        T const u = in.real("vp_last_u");
        bool ok = true; T s = 0; for (auto x : w) { ok = ok && std::isfinite(x) && x >= 0; s += x; }
        if (ok && s > 0 && u >= 0 && u < 1) { std::cout << "verifier inputs:\n"; check(w, std::uint64_t(std::ldexp((long double)u, 64)), true); }
    }
    if (!bad)
    {
        std::cout << "searching small weight vectors x boundary values of u on the real code\n";
        T const vals[] = { T(0), T(1), T(0.1), T(3), T(1e-3), T(0.5) };
        std::vector<std::vector<T>> ws;
        for (T a : vals) for (T b : vals) { ws.push_back({a, b}); for (T c : vals) { ws.push_back({a, b, c}); ws.push_back({a, b, c, T(0)}); ws.push_back({T(0), a, b, c}); } }
        for (int n = 5; n <= 13; ++n) { ws.push_back(std::vector<T>(n, T(0.1))); ws.push_back(std::vector<T>(n, T(1))); ws.push_back(std::vector<T>(n, T(1) / T(n))); }
        for (auto const& w : ws)
        {
            T s = 0; for (auto x : w) s += x;
            if (!(s > 0)) continue;
            std::vector<std::uint64_t> raws = { 0, 1, ~std::uint64_t(0), ~std::uint64_t(0) - 2048, std::uint64_t(1) << 63, (std::uint64_t(1) << 63) + 2048, (std::uint64_t(1) << 63) - 2048 };
            T acc = 0;
            for (auto x : w) { acc += x; long double b = (long double)(acc / s); if (b < 1) { std::uint64_t r0 = std::uint64_t(std::ldexp(b, 64)); raws.push_back(r0); raws.push_back(r0 + 4096); raws.push_back(r0 - 4096); } }
            for (auto r : raws) { check(w, r, false); if (bad >= 5) break; }
            if (bad >= 5) break;
        }
    }
    std::cout << (bad ? "property violated on the real code\n" : "no violation found natively\n");
    return bad ? 1 : 0;
}
