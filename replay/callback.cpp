// Native replay for C12 (stop decision) on the REAL hep::callback and hep::plain: runs integrands whose combined relative
// error is 0 / NaN / positive with target 0 and checks that all requested iterations are performed; with a positive target,
// checks that the run stops exactly at the first iteration whose combined relative error is <= target.
#include "hep/mc.hpp"
#include "vp_replay.hpp"
#include <cmath>
#include <limits>
static int bad = 0;
template <typename F> static std::size_t iterations(F f, T target, std::size_t n)
{
    auto r = hep::plain(hep::make_integrand<T>(f, 1), std::vector<std::size_t>(n, 100), hep::make_plain_chkpt<T>(),
        hep::callback<hep::default_plain_chkpt<T>>(hep::callback_mode::silent, "", target));
    return r.results().size();
}
int main(int argc, char** argv)
{
    vp_inputs in(argv[1]);
    auto zero = [](hep::mc_point<T> const&) { return T(0); };
    auto cnst = [](hep::mc_point<T> const&) { return T(2); };
    auto nanf = [](hep::mc_point<T> const&) { return std::numeric_limits<T>::quiet_NaN(); };
    auto lin  = [](hep::mc_point<T> const& p) { return p.point()[0]; };
    auto neg  = [](hep::mc_point<T> const& p) { return -T(1.5) * p.point()[0]; };
    struct { char const* name; std::size_t got; } rows[] = {
        { "identically zero integrand, target 0", iterations(zero, T(0), 5) },
        { "constant integrand, target 0", iterations(cnst, T(0), 5) },
        { "NaN integrand, target 0", iterations(nanf, T(0), 5) },
        { "linear integrand, target 0", iterations(lin, T(0), 5) },
        { "negative integrand, target 0", iterations(neg, T(0), 5) } };
    for (auto const& r : rows) { if (r.got != 5) { ++bad; std::cout << "  VIOLATED on the real code: C12.notarget: " << r.name << ": " << r.got << " of 5 iterations performed\n"; } }
    // positive target: replay the decision on the results actually produced
    for (int which = 0; which != 2; ++which)
    {
        T const target = T(0.01);
        auto chk = which ? hep::plain(hep::make_integrand<T>(neg, 1), std::vector<std::size_t>(40, 100), hep::make_plain_chkpt<T>(), hep::callback<hep::default_plain_chkpt<T>>(hep::callback_mode::silent, "", target))
                         : hep::plain(hep::make_integrand<T>(lin, 1), std::vector<std::size_t>(40, 100), hep::make_plain_chkpt<T>(), hep::callback<hep::default_plain_chkpt<T>>(hep::callback_mode::silent, "", target));
        auto const& res = chk.results();
        for (std::size_t k = 1; k <= res.size(); ++k)
        {
            auto const all = hep::accumulate<hep::weighted_with_variance>(res.begin(), res.begin() + k);
            bool const reached = all.error() / std::fabs(all.value()) <= target;
            if (k < res.size() && reached) { ++bad; std::cout << "  VIOLATED on the real code: C12.target: the run continued after the target was reached at iteration " << k << "\n"; break; }
            if (k == res.size() && k < 40 && !reached) { ++bad; std::cout << "  VIOLATED on the real code: C12.target: the run stopped at iteration " << k << " before the target was reached\n"; }
        }
    }
    std::cout << (bad ? "property violated on the real code\n" : "no violation found natively\n");
    return bad ? 1 : 0;
}
