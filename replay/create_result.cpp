// Native replay for C13.create_value / C13.create_error on the REAL hep::create_result: the result built from (calls, value, error)
// has that value and that error (documented estimator formulas), for the verifier's N and a set of large N that exercise every
// integer sub-expression (N near 2^32 and above, where a product of two call counts no longer fits 64 bits).
#include "hep/mc/mc_result.hpp"
#include "vp_replay.hpp"
#include <cmath>
static int bad = 0;
static void check(std::size_t N, T E, T e)
{
    hep::mc_result<T> const r = hep::create_result<T>(N, N, N, E, e);
    auto rel = [](long double a, long double b) { return std::fabs(a - b) <= 1e-5L * (std::fabs(a) + std::fabs(b)) + 1e-300L; };
    if (!rel(r.value(), E)) { ++bad; std::cout << "  VIOLATED on the real code: C13.create_value N=" << N << " value()=" << r.value() << " given " << E << "\n"; }
    if (N >= 2 && !rel(r.error(), e)) { ++bad; std::cout << "  VIOLATED on the real code: C13.create_error N=" << N << " error()=" << r.error() << " given " << e << "\n"; }
}
int main(int argc, char** argv)
{
    vp_inputs in(argv[1]);
    std::size_t Ns[] = { std::size_t(in.u64("N", 1000)), 2, 3, 1000, (std::size_t(1) << 32) - 1, (std::size_t(1) << 32) + 1, std::size_t(5000000000ULL), std::size_t(1) << 40, (std::size_t(1) << 52) + 3 };
    for (std::size_t N : Ns) { if (N < 2 || N > (std::size_t(1) << 53)) continue; check(N, T(0.37), T(0.01)); check(N, T(-2), T(0.5)); check(N, T(1), T(1)); }
    std::cout << (bad ? "property violated on the real code\n" : "no violation found natively\n");
    return bad ? 1 : 0;
}
