// Native replay for C05 on the REAL classes: write -> text -> read, then compare field by field and bit for bit.
// All classes are exercised on every replay with a fixed set of hard finite values (denormals, largest finite, -0,
// values that need all max_digits10 digits); the obligation decides which names are used: regular names (non-empty, no
// leading blank) unless the failed obligation is the one about empty / leading-blank names.
#include <sstream>
#include <random>
#include <vector>
#include <string>
#include <iostream>
#include <limits>
#include <cmath>
#include <cstring>
#define private public
#define protected public
#include "hep/mc.hpp"
#undef private
#undef protected
#include "vp_replay.hpp"

static int bad = 0; static unsigned long ncases = 0;
#define CHECK(c, msg) do { ++ncases; if (!(c)) { ++bad; std::cout << "  VIOLATED on the real code: " << msg << "\n"; } } while (0)

static bool beq(T a, T b) { return a == b && std::signbit(a) == std::signbit(b); }   // finite values: same value and sign = same bits (long double has padding bytes)
static bool veq(std::vector<T> const& a, std::vector<T> const& b)
{
    if (a.size() != b.size()) return false;
    for (std::size_t i = 0; i != a.size(); ++i) if (!beq(a[i], b[i])) return false;
    return true;
}
static std::vector<T> hard()
{
    typedef std::numeric_limits<T> L;
    std::vector<T> v;
    v.push_back(T(0.1)); v.push_back(L::denorm_min()); v.push_back(L::max()); v.push_back(-L::max()); v.push_back(-T(0.0));
    v.push_back(std::nextafter(T(1.0), T(2.0))); v.push_back(L::min()); v.push_back(T(1.0) / T(3.0)); v.push_back(-L::denorm_min() * 3);
    v.push_back(T(123456789.0) / T(7.0)); v.push_back(L::epsilon()); v.push_back(T(0.0));
    return v;
}
static T h(std::size_t i) { static std::vector<T> v = hard(); return v[i % v.size()]; }

static bool mc_eq(hep::mc_result<T> const& a, hep::mc_result<T> const& b)
{
    return a.calls_ == b.calls_ && a.non_zero_calls_ == b.non_zero_calls_ && a.finite_calls_ == b.finite_calls_ && beq(a.sum_, b.sum_) && beq(a.sum_of_squares_, b.sum_of_squares_);
}
static bool par_eq(hep::distribution_parameters<T> const& a, hep::distribution_parameters<T> const& b, bool names)
{
    return a.bins_x_ == b.bins_x_ && a.bins_y_ == b.bins_y_ && beq(a.x_min_, b.x_min_) && beq(a.y_min_, b.y_min_) && beq(a.bin_size_x_, b.bin_size_x_)
        && beq(a.bin_size_y_, b.bin_size_y_) && (!names || a.name_ == b.name_);
}
static bool plain_eq(hep::plain_result<T> const& a, hep::plain_result<T> const& b)
{
    if (!mc_eq(a, b) || a.distributions_.size() != b.distributions_.size()) return false;
    for (std::size_t i = 0; i != a.distributions_.size(); ++i)
    {
        if (!par_eq(a.distributions_[i].parameters_, b.distributions_[i].parameters_, true)) return false;
        if (a.distributions_[i].results_.size() != b.distributions_[i].results_.size()) return false;
        for (std::size_t j = 0; j != a.distributions_[i].results_.size(); ++j) if (!mc_eq(a.distributions_[i].results_[j], b.distributions_[i].results_[j])) return false;
    }
    return true;
}
static bool pdf_eq(hep::vegas_pdf<T> const& a, hep::vegas_pdf<T> const& b) { return a.bins_ == b.bins_ && a.dimensions_ == b.dimensions_ && veq(a.x, b.x); }

static hep::plain_result<T> make_plain(std::size_t seed, std::vector<std::string> const& names)
{
    std::vector<hep::distribution_result<T>> d;
    for (std::size_t k = 0; k != names.size(); ++k)
    {
        hep::distribution_parameters<T> p(2 + k, k % 2 ? 2 : 1, h(seed + k), T(1.0) + h(seed + k), h(seed + k + 1), T(2.0) + h(seed + k + 1), names[k]);
        p.x_min_ = h(seed + 2 * k); p.bin_size_x_ = h(seed + 2 * k + 1); p.y_min_ = h(seed + 2 * k + 2); p.bin_size_y_ = h(seed + 2 * k + 3);
        std::vector<hep::mc_result<T>> r;
        for (std::size_t j = 0; j != p.bins_x() * p.bins_y(); ++j) r.emplace_back(100 + j, 50 + j, 40 + j, h(seed + j), h(seed + j + 5));
        d.emplace_back(p, r);
    }
    return hep::plain_result<T>(d, 1000 + seed, 900 + seed, 800 + seed, h(seed + 3), h(seed + 4));
}

template <typename E>
static void engines(std::vector<std::string> const& names, char const* ename)
{
    // PLAIN checkpoint with generators
    auto c = hep::make_plain_chkpt<T, E>(E(11));
    for (std::size_t i = 0; i != 3; ++i) { E g(100 + i); g.discard(i * 7 + 1); c.add(make_plain(i, names), g); }
    std::ostringstream o; c.serialize(o);
    std::istringstream in(o.str());
    auto d = hep::make_plain_chkpt<T, E>(in);
    CHECK(d.results().size() == c.results().size(), "plain_chkpt: number of results (" << ename << ")");
    for (std::size_t i = 0; i < c.results().size() && i < d.results().size(); ++i) CHECK(plain_eq(c.results()[i], d.results()[i]), "plain_chkpt: result " << i << " differs");
    CHECK(d.generators_.size() == c.generators_.size(), "chkpt_with_rng: number of generators (" << ename << ")");
    for (std::size_t i = 0; i < c.generators_.size() && i < d.generators_.size(); ++i) CHECK(c.generators_[i] == d.generators_[i], "chkpt_with_rng: generator " << i << " differs (" << ename << ")");
}

#define OUT(x) x
int main(int argc, char** argv)
{
    vp_inputs in(argv[1]);
    bool odd_names = in.obligation.find("name_empty_or_leading_blank") != std::string::npos;
    std::vector<std::string> names;
    if (odd_names) { names.push_back(""); names.push_back("  leading blanks"); }
    else { names.push_back("distribution #1"); names.push_back("a  b c "); names.push_back("x"); }
    std::cout << "round trips on the real classes; names: " << (odd_names ? "empty and leading-blank" : "regular") << "\n";

    // distribution_parameters on their own, in checkpoint position (after a token and a newline)
    for (std::size_t k = 0; k != names.size(); ++k)
    {
        hep::distribution_parameters<T> p(3, 2, T(0.0), T(1.0), T(0.0), T(1.0), names[k]);
        p.x_min_ = h(k); p.bin_size_x_ = h(k + 1); p.y_min_ = h(k + 2); p.bin_size_y_ = h(k + 3);
        std::ostringstream o; o << 7 << '\n'; p.serialize(o);
        std::istringstream i2(o.str()); std::size_t seven; i2 >> seven;
        hep::distribution_parameters<T> q(i2);
        CHECK(q.name_ == p.name_, "distribution_parameters: name '" << p.name_ << "' read back as '" << q.name_ << "'");
        if (q.name_ == p.name_) CHECK(par_eq(p, q, false), "distribution_parameters: a numeric field differs");
    }
    // mc_result, every hard value in every real field
    for (std::size_t i = 0; i != hard().size(); ++i)
    {
        hep::mc_result<T> a(std::numeric_limits<std::size_t>::max() - i, i, i + 1, h(i), h(i + 1));
        std::ostringstream o; a.serialize(o); std::istringstream i2(o.str()); hep::mc_result<T> b(i2);
        CHECK(mc_eq(a, b), "mc_result: field differs for value index " << i);
    }
    try
    {
    engines<std::mt19937>(names, "mt19937");
    engines<std::minstd_rand>(names, "minstd_rand");
    engines<std::minstd_rand0>(names, "minstd_rand0");
    engines<std::mt19937_64>(names, "mt19937_64");
    engines<std::ranlux24_base>(names, "ranlux24_base");
    engines<std::ranlux48_base>(names, "ranlux48_base");
    engines<std::ranlux24>(names, "ranlux24");
    engines<std::ranlux48>(names, "ranlux48");
    engines<std::knuth_b>(names, "knuth_b");
    // VEGAS: grid with hard boundaries, results with adjustment data, checkpoint with and without results
    {
        hep::vegas_pdf<T> g(2, 3);
        for (std::size_t i = 0; i != g.x.size(); ++i) g.x[i] = h(i);
        std::ostringstream o; g.serialize(o); std::istringstream i2(o.str()); hep::vegas_pdf<T> g2(i2);
        CHECK(pdf_eq(g, g2), "vegas_pdf: shape or a boundary differs");
        std::vector<T> adj; for (std::size_t i = 0; i != 6; ++i) adj.push_back(h(i + 2));
        auto c0 = hep::make_vegas_chkpt<T, std::mt19937>(g, h(0), std::mt19937(5));
        std::ostringstream o0; c0.serialize(o0); std::istringstream i0(o0.str());
        auto d0 = hep::make_vegas_chkpt<T, std::mt19937>(i0);
        CHECK(beq(c0.alpha_, d0.alpha_), "vegas_chkpt: alpha differs");
        CHECK(d0.pdf_.size() == 1 && pdf_eq(c0.pdf_.at(0), d0.pdf_.at(0)), "vegas_chkpt: the first grid does not come back while there are no results");
        CHECK(d0.generators_.size() == 1 && d0.generators_[0] == c0.generators_[0], "vegas_chkpt: generator differs");
        auto c1 = c0;
        for (std::size_t k = 0; k != 2; ++k) { std::mt19937 gg(k); c1.add(hep::vegas_result<T>(make_plain(k, names), g, adj), gg); }
        std::ostringstream o1; c1.serialize(o1); std::istringstream i1(o1.str());
        auto d1 = hep::make_vegas_chkpt<T, std::mt19937>(i1);
        CHECK(d1.results().size() == 2, "vegas_chkpt: number of results");
        for (std::size_t k = 0; k < d1.results().size() && k < 2; ++k)
        {
            CHECK(plain_eq(c1.results()[k], d1.results()[k]), "vegas_result: plain part differs");
            CHECK(pdf_eq(c1.results()[k].pdf_, d1.results()[k].pdf_), "vegas_result: grid differs");
            CHECK(veq(c1.results()[k].adjustment_data_, d1.results()[k].adjustment_data_), "vegas_result: adjustment data differ");
        }
        CHECK(beq(c1.alpha_, d1.alpha_), "vegas_chkpt (with results): alpha differs");
    }
    // multi-channel
    {
        std::vector<T> w; w.push_back(T(0.1)); w.push_back(T(0.0)); w.push_back(T(0.9));
        auto c0 = hep::make_multi_channel_chkpt<T, std::mt19937>(w, T(1.0) / T(3.0), T(0.7), std::mt19937(3));
        std::ostringstream o0; c0.serialize(o0); std::istringstream i0(o0.str());
        auto d0 = hep::make_multi_channel_chkpt<T, std::mt19937>(i0);
        CHECK(beq(c0.beta_, d0.beta_) && beq(c0.min_weight_, d0.min_weight_), "multi_channel_chkpt: beta / min_weight differ or are swapped");
        CHECK(veq(c0.first_channel_weights_, d0.first_channel_weights_), "multi_channel_chkpt: first weights differ");
        std::vector<T> adj, cw; for (std::size_t i = 0; i != 3; ++i) { adj.push_back(h(i + 1)); cw.push_back(h(i + 6)); }
        auto c1 = c0;
        for (std::size_t k = 0; k != 2; ++k) { std::mt19937 gg(k); c1.add(hep::multi_channel_result<T>(make_plain(k, names), adj, cw), gg); }
        std::ostringstream o1; c1.serialize(o1); std::istringstream i1(o1.str());
        auto d1 = hep::make_multi_channel_chkpt<T, std::mt19937>(i1);
        CHECK(d1.results().size() == 2, "multi_channel_chkpt: number of results");
        for (std::size_t k = 0; k < d1.results().size() && k < 2; ++k)
        {
            CHECK(plain_eq(c1.results()[k], d1.results()[k]), "multi_channel_result: plain part differs");
            CHECK(veq(c1.results()[k].adjustment_data_, d1.results()[k].adjustment_data_), "multi_channel_result: adjustment data differ");
            CHECK(veq(c1.results()[k].channel_weights_, d1.results()[k].channel_weights_), "multi_channel_result: channel weights differ");
        }
        CHECK(beq(c1.beta_, d1.beta_) && beq(c1.min_weight_, d1.min_weight_), "multi_channel_chkpt (with results): beta / min_weight differ");
    }
    }
    catch (std::exception const& e) { CHECK(false, "exception while reading a checkpoint back: " << e.what()); }
    std::cout << "cases " << ncases << "\n";
    std::cout << (bad ? "property violated on the real code\n" : "no violation found natively\n");
    return bad ? 1 : 0;
}
