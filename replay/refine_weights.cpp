// Native replay / search for C08 on the REAL hep::multi_channel_refine_weights.  Predicate (admissible inputs): the result
// is finite, >= 0, sums to one (n ulp), keeps disabled channels disabled, equals the documented formula
// w_i d_i^beta -> normalise -> max(., min) -> normalise (long double reference), and is unchanged when all data are zero.
#include "hep/mc/multi_channel_refine_weights.hpp"
#include "vp_replay.hpp"
#include <cmath>
#include <limits>
static int bad = 0;
static void check(std::vector<T> const& w, std::vector<T> const& d, T mn, T beta, bool verbose)
{
    std::vector<T> const out = hep::multi_channel_refine_weights(w, d, mn, beta);
    std::size_t const n = w.size();
    char const* why = nullptr;
    long double S = 0; std::vector<long double> a(n), b(n);
    for (std::size_t i = 0; i != n; ++i) { a[i] = (long double)w[i] * std::pow((long double)d[i], (long double)beta); S += a[i]; }
    if (out.size() != n) why = "C08.len";
    else if (S == 0) { for (std::size_t i = 0; i != n; ++i) if (!(out[i] == w[i])) why = "C08.nodata: an iteration without information changed the weights"; }
    else
    {
        long double S2 = 0;
        for (std::size_t i = 0; i != n; ++i) { b[i] = (a[i] == 0) ? 0 : std::fmax(a[i] / S, (long double)mn); S2 += b[i]; }
        long double sum = 0, tol = 64 * n * std::numeric_limits<T>::epsilon();
        for (std::size_t i = 0; i != n && !why; ++i)
        {
            sum += out[i];
            if (!std::isfinite(out[i]) || out[i] < 0) why = "C08.nonneg: weight not finite or negative";
            else if (w[i] == 0 && out[i] != 0) why = "C08.disabled: a disabled channel was re-enabled";
            else if (std::fabs((long double)out[i] - b[i] / S2) > tol * (1 + b[i] / S2)) why = "C08.power/floor/norm: weight differs from w*d^beta, floored at the minimum weight before the final normalisation";
        }
        if (!why && std::fabs(sum - 1) > tol) why = "C08.sum: weights do not sum to one";
    }
    if (why || verbose)
    {
        std::cout << (why ? "  VIOLATED on the real code: " : "  ok ") << (why ? why : "") << " min=" << mn << " beta=" << beta << " w={";
        for (auto x : w) std::cout << x << " "; std::cout << "} d={"; for (auto x : d) std::cout << x << " "; std::cout << "} -> {"; for (auto x : out) std::cout << x << " "; std::cout << "}\n";
    }
    if (why) ++bad;
}
int main(int argc, char** argv)
{
    vp_inputs in(argv[1]);
    T const ws[] = { T(0), T(1), T(0.25), T(3), T(1e-3) }, ds[] = { T(0), T(1), T(100), T(1e-6), T(7e8) };
    T const mins[] = { T(0), T(0.1), T(0.3) }, betas[] = { T(0.25), T(0.5), T(1) };
    for (T mn : mins) for (T be : betas) for (T w0 : ws) for (T w1 : ws) for (T w2 : ws) for (T d0 : ds) for (T d1 : ds) for (T d2 : ds)
    {
        if (w0 + w1 + w2 == 0) continue;
        check({w0, w1, w2}, {d0, d1, d2}, mn, be, false);
        if (bad >= 5) goto done;
    }
done:
    std::cout << (bad ? "property violated on the real code\n" : "no violation found natively\n");
    return bad ? 1 : 0;
}
