// Native replay for C15 on the REAL hep::chkpt_with_rng: rollback(k) of a checkpoint with n results.
// Inputs: n (number of results, capped at 8 here), k (iteration).  Predicate: k > n throws and changes nothing;
// k <= n leaves k results and k+1 generators (generator() == the generator that preceded iteration k), k == n is a no-op,
// and the rolled-back checkpoint serialises (the library's own assert holds).
#include <sstream>
#include <random>
#include <vector>
#include <string>
#include <iostream>
#include <stdexcept>
#include <cassert>
#define private public
#define protected public
#include "hep/mc.hpp"
#undef private
#undef protected
#include "vp_replay.hpp"

static int bad = 0;
#define CHECK(c, msg) do { if (!(c)) { ++bad; std::cout << "  VIOLATED on the real code: " << msg << " (n=" << n << " k=" << k << ")\n"; } } while (0)

static void run(std::size_t n, std::size_t k)
{
    auto chk = hep::make_plain_chkpt<T, std::mt19937>(std::mt19937(7));
    std::vector<std::mt19937> gens; gens.push_back(chk.generator());
    for (std::size_t i = 0; i != n; ++i)
    {
        std::mt19937 g(100 + i);
        chk.add(hep::plain_result<T>(std::vector<hep::distribution_result<T>>(), 10 + i, 5, 5, T(1 + i), T(2 + i)), g);
        gens.push_back(g);
    }
    bool threw = false;
    try { chk.rollback(k); } catch (std::out_of_range const&) { threw = true; }
    if (k > n)
    {
        CHECK(threw, "C15.range: rollback beyond the number of results is not rejected");
        CHECK(chk.results().size() == n && chk.generators_.size() == n + 1, "C15.range: rejected rollback changed the checkpoint");
        return;
    }
    CHECK(!threw, "C15.idem/C15.len: rollback to k <= n must not throw");
    if (threw) return;
    CHECK(chk.results().size() == k, "C15.len_results");
    CHECK(chk.generators_.size() == k + 1, "C15.len_generators: |generators| != k + 1");
    if (!chk.generators_.empty()) CHECK(chk.generator() == gens[k], "C15.gen: generator() is not the generator that preceded iteration k");
    for (std::size_t i = 0; i < k && i < chk.results().size(); ++i) CHECK(chk.results()[i].calls() == 10 + i, "C15.prefix: a kept result changed");
}

int main(int argc, char** argv)
{
    vp_inputs in(argv[1]);
    std::size_t n0 = std::size_t(in.u64("vp_w_n", 3)), k0 = std::size_t(in.u64("k", in.u64("iteration", 1)));
    if (n0 > 8) n0 = 8;
    if (k0 > n0 + 1) k0 = n0 + 1;
    std::cout << "verifier inputs (capped): n=" << n0 << " k=" << k0 << "\n";
    run(n0, k0);
    if (!bad) { std::cout << "searching all n <= 5, k <= n+1 on the real code\n"; for (std::size_t n = 0; n <= 5; ++n) for (std::size_t k = 0; k <= n + 1; ++k) run(n, k); }
    std::cout << (bad ? "property violated on the real code\n" : "no violation found natively\n");
    return bad ? 1 : 0;
}
