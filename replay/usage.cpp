// BOUNDED native enumeration (not a proof): hep::random_number_usage<T, R>() against the measured number of raw engine
// draws of one std::generate_canonical<T, digits> call, for T in {float, double, long double} x the standard engines +
// synthetic engines with odd ranges.  The function uses std::log2(long double), which no back end here models.
#include "hep/mc/generator_helper.hpp"
#include <cstdint>
#include <iostream>
#include <limits>
#include <random>
#include <csignal>
#include <unistd.h>
static char const* g_tn = ""; static char const* g_en = "";
static void on_fpe(int) { char const m[] = "  VIOLATED on the real code: C10.usage: arithmetic exception (division by zero) inside random_number_usage\nproperty violated on the real code\n"; ssize_t r = write(1, m, sizeof(m) - 1); (void)r; _exit(1); }
template <typename E> struct counting
{
    typedef typename E::result_type result_type;
    E e; std::size_t n = 0;
    static constexpr result_type min() { return E::min(); }
    static constexpr result_type max() { return E::max(); }
    result_type operator()() { ++n; return e(); }
};
template <std::uint64_t LO, std::uint64_t HI> struct synth
{
    typedef std::uint64_t result_type;
    std::uint64_t s = 12345;
    static constexpr result_type min() { return LO; }
    static constexpr result_type max() { return HI; }
    result_type operator()() { s = s * 6364136223846793005ULL + 1442695040888963407ULL; return LO + (s >> 11) % (HI - LO + 1); }
};
static int bad = 0, cases = 0;
template <typename T, typename E> static void one(char const* tn, char const* en)
{
    counting<E> c;
    std::generate_canonical<T, std::numeric_limits<T>::digits>(c);
    std::size_t const predicted = hep::random_number_usage<T, counting<E>>();
    ++cases;
    if (predicted != c.n) { ++bad; std::cout << "  VIOLATED on the real code: C10.usage: random_number_usage<" << tn << ", " << en << ">() = " << predicted << " but generate_canonical draws " << c.n << " raw numbers\n"; }
}
template <typename E> static void all(char const* en) { one<float, E>("float", en); one<double, E>("double", en); one<long double, E>("long double", en); }
int main()
{
    std::signal(SIGFPE, on_fpe);
    all<std::minstd_rand0>("minstd_rand0"); all<std::minstd_rand>("minstd_rand"); all<std::mt19937>("mt19937"); all<std::mt19937_64>("mt19937_64");
    all<std::ranlux24_base>("ranlux24_base"); all<std::ranlux48_base>("ranlux48_base"); all<std::ranlux24>("ranlux24"); all<std::ranlux48>("ranlux48"); all<std::knuth_b>("knuth_b");
    all<synth<0, 1>>("range 2"); all<synth<0, 2>>("range 3"); all<synth<5, 10>>("range 6"); all<synth<0, 255>>("range 256"); all<synth<0, (1ULL << 33)>>("range 2^33+1");
    std::cout << "cases " << cases << "\n" << (bad ? "property violated on the real code\n" : "no violation found natively\n");
    return bad ? 1 : 0;
}
