// Native replay for accumulator<T,false>::invoke and accumulator<T,true>::invoke on the REAL templates.
// Inputs: vp_last_f (integrand value), vp_last_w (point weight), vp_w_s0/s1/s2/nz/fc (initial accumulator state).
// The property predicate is the C02/C06 classification.  If the given inputs do not violate it (an abstract-FP
// counterexample may use an impossible product), a grid of boundary values is searched on the real code.
#include <algorithm>
#include <array>
#include <cassert>
#include <cmath>
#include <fstream>
#include <iomanip>
#include <iostream>
#include <iterator>
#include <limits>
#include <numeric>
#include <random>
#include <sstream>
#include <string>
#include <type_traits>
#include <utility>
#include <vector>
#include <functional>
#include <stdexcept>
#define private public
#define protected public
#include "hep/mc.hpp"
#undef private
#undef protected
#include "vp_replay.hpp"
#include <cmath>
#include <limits>

static bool feq(T a, T b) { return a == b || (std::isnan(a) && std::isnan(b)); }

struct state { T s0, s1, s2; std::size_t nz, fc; };

static T g_f, g_w;
static std::size_t g_weight_calls, g_invocations;

struct point_t : hep::mc_point<T>
{
    explicit point_t(std::vector<T> const& p) : hep::mc_point<T>(p) {}
    T weight() const override { ++g_weight_calls; return g_w; }
};
struct fn_t
{
    T operator()(hep::mc_point<T> const&) const { ++g_invocations; return g_f; }
    T operator()(hep::mc_point<T> const&, hep::projector<T>&) const { ++g_invocations; return g_f; }
};

static void set(hep::accumulator<T, false>& a, state const& s);
static state get(hep::accumulator<T, false>& a);
static void set(hep::accumulator<T, true>& a, state const& s);
static state get(hep::accumulator<T, true>& a);
// returns a description of the violated clause or nullptr
template <bool D>
static char const* run(state const& in, T f, T w, bool verbose)
{
    g_f = f; g_w = w; g_weight_calls = 0; g_invocations = 0;
    std::vector<T> rn(1, T(0.5));
    point_t pt(rn);
    std::vector<hep::distribution_parameters<T>> params;
    if (D) params.push_back(hep::distribution_parameters<T>(2, T(0), T(1), "d"));
    hep::integrand<T, fn_t, D> ig(fn_t(), 1, params);
    hep::accumulator<T, D> acc(params);
    state out;
    T ret;
    // set the initial state, run the REAL invoke, read the final state
    set(acc, in);
    ret = acc.invoke(ig, pt);
    out = get(acc);
    if (verbose) std::cout << "  real invoke: f=" << f << " w=" << w << " f*w=" << f * w << " -> ret=" << ret << " sums=(" << out.s0 << "," << out.s1 << "," << out.s2
        << ") non_zero " << in.nz << "->" << out.nz << " finite " << in.fc << "->" << out.fc << " weight() calls " << g_weight_calls << "\n";
    if (g_invocations != 1) return "integrand not evaluated exactly once";
    T const v = f * w;
    if (f == T()) {
        if (g_weight_calls != 0) return "C02.weight_lazy: weight requested although f == 0";
        if (out.nz != in.nz || out.fc != in.fc) return "C02.zero_counters";
        if (!feq(out.s0, in.s0) || !feq(out.s1, in.s1) || !feq(out.s2, in.s2)) return "C02.zero_sums";
        if (!(ret == T())) return "C02.zero_ret";
        return nullptr;
    }
    if (g_weight_calls != 1) return "C02.weight_once";
    if (out.nz != in.nz + 1) return "C02.nonzero_counter";
    if (std::isfinite(v)) {
        if (out.fc != in.fc + 1) return "C02.finite_counter";
        T const y = v - in.s2, t = in.s0 + y;
        if (!feq(out.s0, t) || !feq(out.s2, (t - in.s0) - y) || !feq(out.s1, in.s1 + v * v)) return "C02.acc_once: sums are not the Kahan update with f*w";
        if (!feq(ret, v)) return "C02.ret_fw";
    } else {
        if (out.fc != in.fc) return "C06.invoke_counters: non-finite f*w counted as finite";
        if (!feq(out.s0, in.s0) || !feq(out.s1, in.s1) || !feq(out.s2, in.s2)) return "C06.invoke_sums: non-finite f*w changed the sums";
        if (!(ret == T())) return "C06.invoke_ret: non-finite f*w not returned as zero";
    }
    if (!std::isfinite(ret)) return "C06.ret_finite";
    return nullptr;
}

static void set(hep::accumulator<T, false>& a, state const& s) { a.sums_[0] = s.s0; a.sums_[1] = s.s1; a.sums_[2] = s.s2; a.non_zero_calls_ = s.nz; a.finite_calls_ = s.fc; }
static state get(hep::accumulator<T, false>& a) { state s = { a.sums_[0], a.sums_[1], a.sums_[2], a.non_zero_calls_, a.finite_calls_ }; return s; }
static void set(hep::accumulator<T, true>& a, state const& s) { a.sums_[0] = s.s0; a.sums_[1] = s.s1; a.compensations_[0] = s.s2; a.non_zero_calls_[0] = s.nz; a.finite_calls_[0] = s.fc; }
static state get(hep::accumulator<T, true>& a) { state s = { a.sums_[0], a.sums_[1], a.compensations_[0], a.non_zero_calls_[0], a.finite_calls_[0] }; return s; }

int main(int argc, char** argv)
{
    vp_inputs in(argv[1]);
    state s = { in.real("vp_w_s0"), in.real("vp_w_s1"), in.real("vp_w_s2"), std::size_t(in.u64("vp_w_nz")), std::size_t(in.u64("vp_w_fc")) };
    if (s.nz == std::size_t(-1)) s.nz = 0;
    if (s.fc == std::size_t(-1)) s.fc = 0;
    T const f = in.real("vp_last_f"), w = in.real("vp_last_w");
    int bad = 0;
    for (int d = 0; d != 2; ++d)
    {
        std::cout << (d ? "accumulator<T,true>" : "accumulator<T,false>") << " with the verifier's inputs:\n";
        char const* r = d ? run<true>(s, f, w, true) : run<false>(s, f, w, true);
        if (r) { std::cout << "  VIOLATED on the real code: " << r << "\n"; ++bad; }
    }
    if (!bad)
    {
        std::cout << "verifier inputs do not violate the property natively (abstract product?); searching boundary values\n";
        T const inf = std::numeric_limits<T>::infinity(), nan = std::numeric_limits<T>::quiet_NaN(), mx = std::numeric_limits<T>::max(), mn = std::numeric_limits<T>::denorm_min();
        T const vals[] = { T(0), -T(0), T(1), T(-1), T(0.5), T(3), mx, -mx, mn, -mn, inf, -inf, nan, T(1e-30), T(1e30) };
        state const sts[] = { { T(0), T(0), T(0), 0, 0 }, { T(1.5), T(2.25), T(1e-9), 3, 2 }, s };
        for (auto const& st : sts) for (T a : vals) for (T b : vals) for (int d = 0; d != 2 && bad < 5; ++d)
        {
            char const* r = d ? run<true>(st, a, b, false) : run<false>(st, a, b, false);
            if (r) { ++bad; std::cout << "  VIOLATED on the real code (" << (d ? "with" : "without") << " distributions): " << r << " for f=" << a << " w=" << b << "\n"; (d ? run<true>(st, a, b, true) : run<false>(st, a, b, true)); }
        }
    }
    std::cout << (bad ? "property violated on the real code\n" : "no violation found natively\n");
    return bad ? 1 : 0;
}
