// Native replay for the closed formulas of hep::mc_result (C02.value / C02.variance / C02.error) on the REAL class:
// value() = sum/N, variance() = (sumsq/N - E^2)/(N-1), error() = sqrt(variance()), against a long double evaluation, for the
// verifier's N (and a set of large N that exercise every integer sub-expression).
#include "hep/mc/mc_result.hpp"
#include "vp_replay.hpp"
#include <cmath>
static int bad = 0;
static void check(std::size_t N, T S, T Q)
{
    hep::mc_result<T> r(N, N, N, S, Q);
    long double const n = (long double)N, E = (long double)S / n, V = ((long double)Q / n - E * E) / (n - 1);
    long double const tol = 1e-6L;
    auto rel = [](long double a, long double b) { return std::fabs(a - b) <= 1e-6L * (std::fabs(a) + std::fabs(b)) + 1e-300L; };
    if (!rel(r.value(), E)) { ++bad; std::cout << "  VIOLATED on the real code: C02.value N=" << N << " got " << r.value() << " expected " << (double)E << "\n"; }
    if (N >= 2 && std::isfinite((double)V) && !rel(r.variance(), V)) { ++bad; std::cout << "  VIOLATED on the real code: C02.variance N=" << N << " got " << r.variance() << " expected " << (double)V << "\n"; }
    if (N >= 2 && V >= 0 && std::isfinite((double)V) && !rel(r.error(), std::sqrt(V))) { ++bad; std::cout << "  VIOLATED on the real code: C02.error N=" << N << "\n"; }
    (void)tol;
}
int main(int argc, char** argv)
{
    vp_inputs in(argv[1]);
    std::size_t Ns[] = { std::size_t(in.u64("N", 1000)), 2, 3, 1000, (std::size_t(1) << 32) - 1, (std::size_t(1) << 32) + 1, std::size_t(1) << 40, (std::size_t(1) << 52) + 3 };
    for (std::size_t N : Ns) { if (N < 2) continue; check(N, T(0.37) * T(N), T(0.61) * T(N)); check(N, T(-2) * T(N), T(5) * T(N)); }
    std::cout << (bad ? "property violated on the real code\n" : "no violation found natively\n");
    return bad ? 1 : 0;
}
