; Integer lemmas that B1 (CBMC) uses as ghost assumptions because SAT cannot do non-linear integer
; arithmetic.  Each is proved here over unbounded integers; the ranges make the machine terms wrap-free.
; The non-linear steps are split into two general facts (H1 distributivity, H2 monotonicity), each an obligation
; of its own; the lemmas then use INSTANCES of these proven facts as hypotheses and close by linear arithmetic.
(declare-const i Int)
(declare-const D Int)
(declare-const b Int)
(declare-const n Int)
(declare-const k Int)
(declare-const c Int)
(declare-const d Int)
(declare-const x Int)
(declare-const y Int)
(declare-const z Int)
; @obligation L-H1-distributivity  x*z = y*z + (x-y)*z
(assert (not (= (* x z) (+ (* y z) (* (- x y) z)))))
; @obligation L-H2-monotonicity  x >= 1, z >= 0  ==>  x*z >= z
(assert (not (=> (and (>= x 1) (>= z 0)) (>= (* x z) z))))
; @obligation L-H3-bound  0 <= x <= X, 0 <= z <= Z  ==>  x*z <= X*Z   (instance X = 1024, Z = 1048577)
(assert (not (=> (and (<= 0 x) (<= x 1024) (<= 0 z) (<= z 1048577)) (and (<= 0 (* x z)) (<= (* x z) (* 1024 1048577))))))
; @obligation L-grid-index boundary k of dimension i lies inside the array: i < D, k <= b, x.n = D*(b+1)  ==>  i*(b+1)+k < x.n, nothing wraps
; instances of H1 (x:=D, y:=i, z:=b+1), H2 (x:=D-i, z:=b+1), H3 (x:=D, z:=b+1) and (x:=i, z:=b+1)
(assert (= (* D (+ b 1)) (+ (* i (+ b 1)) (* (- D i) (+ b 1)))))
(assert (=> (and (>= (- D i) 1) (>= (+ b 1) 0)) (>= (* (- D i) (+ b 1)) (+ b 1))))
(assert (=> (and (<= 0 D) (<= D 1024) (<= 0 (+ b 1)) (<= (+ b 1) 1048577)) (and (<= 0 (* D (+ b 1))) (<= (* D (+ b 1)) (* 1024 1048577)))))
(assert (=> (and (<= 0 i) (<= i 1024) (<= 0 (+ b 1)) (<= (+ b 1) 1048577)) (and (<= 0 (* i (+ b 1))) (<= (* i (+ b 1)) (* 1024 1048577)))))
(assert (not (=> (and (<= 0 i) (< i D) (<= D 1024) (<= 1 b) (<= b 1048576) (<= 0 k) (<= k b) (= n (* D (+ b 1))))
                 (and (< (+ (* i (+ b 1)) k) n) (< n 18446744073709551616) (< (* i (+ b 1)) 18446744073709551616)))))
; @obligation L-adj-index slot of (dimension j, bin c) lies inside the adjustment data: i < D, c < b  ==>  i*b + c < D*b <= 2^31, nothing wraps
(assert (= (* D b) (+ (* i b) (* (- D i) b))))
(assert (=> (and (>= (- D i) 1) (>= b 0)) (>= (* (- D i) b) b)))
(assert (=> (and (<= 0 D) (<= D 1024) (<= 0 b) (<= b 1048577)) (and (<= 0 (* D b)) (<= (* D b) (* 1024 1048577)))))
(assert (=> (and (<= 0 i) (<= i 1024) (<= 0 b) (<= b 1048577)) (and (<= 0 (* i b)) (<= (* i b) (* 1024 1048577)))))
(assert (not (=> (and (<= 0 i) (< i D) (<= 1 D) (<= D 1024) (<= 1 b) (<= b 1048576) (<= 0 c) (< c b))
                 (and (< (+ (* i b) c) (* D b)) (<= (* D b) 1099511627776)))))
; @obligation L-cell-index cell (bx, by) of a bx_n x by_n distribution whose block [i0, i0 + 2*bx_n*by_n) lies inside sums_ (class invariant of the accumulator constructor): the pair index i0 + 2*(by*bx_n + bx) and its successor are inside sums_
(declare-const bxn Int) (declare-const byn Int) (declare-const bx Int) (declare-const by Int) (declare-const i0 Int) (declare-const sn Int)
(assert (= (* byn bxn) (+ (* by bxn) (* (- byn by) bxn))))
(assert (=> (and (>= (- byn by) 1) (>= bxn 0)) (>= (* (- byn by) bxn) bxn)))
(assert (not (=> (and (<= 0 bx) (< bx bxn) (<= 0 by) (< by byn) (<= 1 bxn) (<= bxn 1024) (<= 1 byn) (<= byn 1024) (<= 2 i0) (<= (+ i0 (* 2 (* bxn byn))) sn))
                 (< (+ i0 (* 2 (+ (* by bxn) bx)) 1) sn))))
; @obligation L-fold-mul adding d once per call is multiplication: (i+1)*d = i*d + d (step of the ghost fold used for C10.total)
(assert (not (= (* (+ i 1) d) (+ (* i d) d))))
; @obligation L-half-double the accumulator constructor reserves (2*bins_x)*bins_y numbers per distribution; half of that is the bin count bins_x*bins_y, and nothing wraps for 1 <= bins <= 1024
(declare-const hx Int) (declare-const hy Int)
(assert (not (=> (and (<= 1 hx) (<= hx 1024) (<= 1 hy) (<= hy 1024)) (and (= (div (* (* 2 hx) hy) 2) (* hx hy)) (<= (* (* 2 hx) hy) 2097152)))))
; @obligation L-sanity_sat_expected the hypotheses are satisfiable
(assert (and (<= 0 i) (< i D) (<= D 1024) (<= 1 b) (<= b 1048576) (= n (* D (+ b 1)))))
