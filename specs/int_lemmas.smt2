; Integer lemmas that B1 (CBMC) uses as ghost assumptions because SAT cannot do non-linear integer
; arithmetic.  Each is proved here over unbounded integers; the ranges make the machine terms wrap-free.
(declare-const i Int)
(declare-const D Int)
(declare-const b Int)
(declare-const n Int)
; @obligation L-row-within-grid a grid row lies inside the boundary array: i < D, x.n = D*(b+1)  ==>  i*(b+1)+b < x.n, nothing wraps
(assert (not (=> (and (<= 0 i) (< i D) (<= D 1024) (<= 1 b) (<= b 1048576) (= n (* D (+ b 1))))
                 (and (< (+ (* i (+ b 1)) b) n) (< n 18446744073709551616) (< (* i (+ b 1)) 18446744073709551616)))))
; @obligation L-grid-index boundary k of dimension i lies inside the array: i < D, k <= b, x.n = D*(b+1)  ==>  i*(b+1)+k < x.n, nothing wraps
(declare-const k Int)
(assert (not (=> (and (<= 0 i) (< i D) (<= D 1024) (<= 1 b) (<= b 1048576) (<= 0 k) (<= k b) (= n (* D (+ b 1))))
                 (and (< (+ (* i (+ b 1)) k) n) (< n 18446744073709551616) (< (* i (+ b 1)) 18446744073709551616)))))
; @obligation L-adj-index slot of (dimension j, bin c) lies inside the adjustment data: j < D, c < b  ==>  j*b + c < D*b <= 2^30, nothing wraps
(declare-const c Int)
(assert (not (=> (and (<= 0 i) (< i D) (<= 1 D) (<= D 1024) (<= 1 b) (<= b 1048576) (<= 0 c) (< c b))
                 (and (< (+ (* i b) c) (* D b)) (<= (* D b) 1099511627776)))))
; @obligation L-fold-mul adding d once per call is multiplication: (i+1)*d = i*d + d (step of the ghost fold used for C10.total)
(declare-const d Int)
(assert (not (= (* (+ i 1) d) (+ (* i d) d))))
; @obligation L-sanity_sat_expected the hypotheses are satisfiable
(assert (and (<= 0 i) (< i D) (<= D 1024) (<= 1 b) (<= b 1048576) (= n (* D (+ b 1)))))
