; C01 as lemmas over the contracts (real arithmetic; rounding is outside C01: "integrated exactly (to rounding)").
; The contracts pin, on the extracted code, per call and per dimension (jobs vegas_icdf, mc_point2_weight, invoke_*):
;   pos = u*bins,  k = floor(pos),  x = left_k + (pos - k)*(right_k - left_k),  weight factor = bins*(right_k - left_k)
;   multi-channel weight = jacobian / sum_j alpha_j p_j, with the alpha the channel was selected with; accumulated value = f * weight
; The lemmas below are the measure-preservation facts that follow from these formulas.
(declare-const b Real) (declare-const k Real) (declare-const l Real) (declare-const r Real)
(declare-const u1 Real) (declare-const u2 Real) (declare-const x1 Real) (declare-const x2 Real) (declare-const w Real)
(declare-const J Real) (declare-const S Real) (declare-const a1 Real) (declare-const a2 Real) (declare-const p1 Real) (declare-const p2 Real)
; @obligation C01.vegas_jacobian inside one bin the point map is affine with slope equal to the reported weight factor: x2 - x1 = w * (u2 - u1)  (so f(x) w du = f(x) dx)
(assert (not (=> (and (>= b 1) (= x1 (+ l (* (- (* u1 b) k) (- r l)))) (= x2 (+ l (* (- (* u2 b) k) (- r l)))) (= w (* b (- r l))))
                 (= (- x2 x1) (* w (- u2 u1))))))
; @obligation C01.vegas_bin_image the u-interval [k/b, (k+1)/b] of bin k is mapped onto [left_k, right_k]: the bins' images tile [0,1] exactly when the grid is a partition (C07)
(assert (not (=> (and (>= b 1) (= u1 (/ k b)) (= u2 (/ (+ k 1) b)) (= x1 (+ l (* (- (* u1 b) k) (- r l)))) (= x2 (+ l (* (- (* u2 b) k) (- r l)))))
                 (and (= x1 l) (= x2 r)))))
; @obligation C01.vegas_unit_mass the weight factor times the u-width of a bin is the bin's x-width: sum over bins of w_k * (1/b) = sum of widths = 1 for a partition
(assert (not (=> (and (>= b 1) (= w (* b (- r l)))) (= (* w (/ 1 b)) (- r l)))))
; @obligation C01.mc_pointwise with S = sum_j alpha_j p_j(x) != 0 the total sampling density S times the weight J/S is the jacobian J, for any number of channels (S abstract)
(assert (not (=> (and (not (= S 0)) (= w (/ J S))) (= (* S w) J))))
; @obligation C01.mc_two_channels explicit instance with two channels: alpha_1 p_1 w + alpha_2 p_2 w = J
(assert (not (=> (and (not (= (+ (* a1 p1) (* a2 p2)) 0)) (= w (/ J (+ (* a1 p1) (* a2 p2))))) (= (+ (* (* a1 p1) w) (* (* a2 p2) w)) J))))
; @obligation C01.sanity_sat_expected hypotheses satisfiable
(assert (and (>= b 1) (= x1 (+ l (* (- (* u1 b) k) (- r l)))) (= w (* b (- r l))) (not (= S 0)) (= w (/ J S)) (< l r)))
