; Real-arithmetic formula obligations (B2r) for create_result(calls, non_zero_calls, finite_calls, value, error): the result it builds
; HAS that value and that error under the documented estimator formulas (C02.value / C02.variance), and no integer sub-expression
; wraps for any call count >= 1 (the __ok side conditions: every size_t intermediate lies in [0, 2^64)).
; Functions generated from the extracted text, one per constructor argument:
;   create_result__calls_, create_result__non_zero_calls_, create_result__finite_calls_, create_result__sum_, create_result__sum_of_squares_
(declare-const N Int)
(declare-const nz Int)
(declare-const fc Int)
(declare-const E Real)
(declare-const e Real)
(define-fun U64 ((x Int)) Bool (and (<= 0 x) (<= x 18446744073709551615)))
(define-fun Nr () Real (to_real N))
(define-fun S () Real (create_result__sum_ N nz fc E e))
(define-fun Q () Real (create_result__sum_of_squares_ N nz fc E e))
; @obligation C13.create_counters the three counters are passed through
(assert (not (=> (and (U64 N) (U64 nz) (U64 fc)) (and (= (create_result__calls_ N nz fc E e) N) (= (create_result__non_zero_calls_ N nz fc E e) nz) (= (create_result__finite_calls_ N nz fc E e) fc)))))
; @obligation C13.create_value for every N >= 1 (any N < 2^64): the built result's value sum/N is the given value, no integer wrap
(assert (not (=> (and (U64 N) (>= N 1)) (and (create_result__sum___ok N nz fc E e) (= (/ S Nr) E)))))
; @obligation C13.create_error for every N >= 2 (any N < 2^64): the built result's variance (sumsq/N - (sum/N)^2)/(N-1) is error^2, no integer wrap
(assert (not (=> (and (U64 N) (>= N 2)) (and (create_result__sum_of_squares___ok N nz fc E e) (= (/ (- (/ Q Nr) (* (/ S Nr) (/ S Nr))) (- Nr 1.0)) (* e e))))))
; @obligation C13.create_sanity_sat_expected hypotheses satisfiable
(assert (and (U64 N) (>= N 2)))
