; Real-arithmetic formula obligations (B2r): the code's expressions ARE the documented formulas.
; Machine arithmetic is treated as mathematical here (listed as an assumption); integer sub-expressions keep their
; no-wrap side conditions (<fn>__ok).  Functions generated from the extracted text:
;   mc_result_value(calls_, non_zero_calls_, finite_calls_, sum_, sum_of_squares_), mc_result_variance(...), mc_result_error(...)
(declare-const N Int)
(declare-const nz Int)
(declare-const fc Int)
(declare-const S Real)
(declare-const Q Real)
(define-fun U64 ((x Int)) Bool (and (<= 0 x) (<= x 18446744073709551615)))
(define-fun Nr () Real (to_real N))
; @obligation C02.value value() = sum / N
(assert (not (=> (and (U64 N) (>= N 1)) (and (mc_result_value__ok N nz fc S Q) (= (mc_result_value N nz fc S Q) (/ S Nr))))))
; @obligation C02.variance for N >= 2 (any N < 2^64): variance() = (sumsq/N - E^2)/(N-1) with E = sum/N, and no integer sub-expression wraps
(assert (not (=> (and (U64 N) (>= N 2))
   (and (mc_result_variance__ok N nz fc S Q)
        (= (mc_result_variance N nz fc S Q) (/ (- (/ Q Nr) (* (/ S Nr) (/ S Nr))) (- Nr 1.0)))))))
; @obligation C02.error error() = sqrt(variance())
(assert (not (=> (and (U64 N) (>= N 2)) (= (mc_result_error N nz fc S Q) (vp_sqrt_r (mc_result_variance N nz fc S Q))))))
; @obligation C02.sanity_sat_expected hypotheses satisfiable
(assert (and (U64 N) (>= N 2)))
