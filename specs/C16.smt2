; Property C16 (and the integer part of C04) over the functions generated from the extracted text:
;   discard_before(total, rank, world), discard_after(total, calls, rank, world),
;   <driver>_sub_calls(calls, rank, world), <driver>_discard1(calls, rank, world, usage),
;   <driver>_discard2(calls, rank, world, usage, sub_calls)      for driver in mpi_plain, mpi_vegas, mpi_multi_channel
; Every obligation is checked as (assert (not ...)) ; unsat = discharged.
(declare-const total Int)
(declare-const world Int)
(declare-const r Int)
(declare-const r2 Int)
(declare-const usage Int)
(define-fun U64 ((x Int)) Bool (and (<= 0 x) (<= x 18446744073709551615)))
(define-fun I32 ((x Int)) Bool (and (<= 0 x) (<= x 2147483647)))
; the mathematical specification (spec functions, not code)
(define-fun q () Int (div total world))
(define-fun m () Int (mod total world))
(define-fun spec_sub ((k Int)) Int (+ q (ite (< k m) 1 0)))
(define-fun spec_before ((k Int)) Int (+ (* q k) (ite (< k m) k m)))
; hypotheses: world >= 1 (an int), 0 <= rank < world, total any size_t
(define-fun H () Bool (and (U64 total) (I32 world) (>= world 1) (<= 0 r) (< r world) (<= 0 r2) (< r2 world)))

; @obligation C16.nooverflow_before every intermediate of discard_before stays in [0,2^64) for rank <= world
(assert (not (=> (and H) (and (discard_before__ok total r world) (discard_before__ok total world world) (discard_before__ok total (+ r 1) world)))))
; @obligation C16.before_spec discard_before(total, r, world) = (total/world)*r + min(r, total%world), also for r = world
(assert (not (=> H (and (= (discard_before total r world) (spec_before r)) (= (discard_before total world world) (spec_before world)) (= (discard_before total (+ r 1) world) (spec_before (+ r 1)))))))
; @obligation C16.before0 nothing is skipped before rank 0
(assert (not (=> H (= (discard_before total 0 world) 0))))
; @obligation C16.total the last share ends at total: before(world) = total
(assert (not (=> H (= (discard_before total world world) total))))
; @obligation C16.sub_spec_plain mpi_plain: sub_calls = total/world + (rank < total%world), no overflow
(assert (not (=> H (and (mpi_plain_sub_calls__ok total r world) (= (mpi_plain_sub_calls total r world) (spec_sub r))))))
; @obligation C16.sub_spec_vegas mpi_vegas: sub_calls = total/world + (rank < total%world), no overflow
(assert (not (=> H (and (mpi_vegas_sub_calls__ok total r world) (= (mpi_vegas_sub_calls total r world) (spec_sub r))))))
; @obligation C16.sub_spec_multi_channel mpi_multi_channel: sub_calls = total/world + (rank < total%world), no overflow
(assert (not (=> H (and (mpi_multi_channel_sub_calls__ok total r world) (= (mpi_multi_channel_sub_calls total r world) (spec_sub r))))))
; @obligation C16.contig shares are contiguous in rank order: before(r) + sub(r) = before(r+1)
(assert (not (=> H (= (+ (discard_before total r world) (mpi_plain_sub_calls total r world)) (discard_before total (+ r 1) world)))))
; @obligation C16.balance per-rank counts differ by at most one
(assert (not (=> H (and (<= (- (mpi_plain_sub_calls total r world) (mpi_plain_sub_calls total r2 world)) 1)
                        (or (= (mpi_plain_sub_calls total r world) q) (= (mpi_plain_sub_calls total r world) (+ q 1)))))))
; @obligation C16.after before + sub + after = total for every rank (the clamp never hides a deficit), no overflow
(assert (not (=> H (and (discard_after__ok total (mpi_plain_sub_calls total r world) r world)
                        (= (+ (discard_before total r world) (mpi_plain_sub_calls total r world) (discard_after total (mpi_plain_sub_calls total r world) r world)) total)))))
; @obligation C16.sum_step induction step of "shares sum to the total": sum_{k<=r} sub(k) = before(r+1), given sum_{k<r} sub(k) = before(r); base before(0)=0, end before(world)=total
(declare-const partial Int)
(assert (not (=> (and H (= partial (discard_before total r world))) (= (+ partial (mpi_plain_sub_calls total r world)) (discard_before total (+ r 1) world)))))
; @obligation C16.callsite_plain mpi_plain positions the generator with usage*before(rank) and usage*after(rank) and ends at usage*total
(assert (not (=> (and H (U64 usage) (U64 (* usage total)))
   (and (mpi_plain_discard1__ok total r world usage)
        (mpi_plain_discard2__ok total r world usage (mpi_plain_sub_calls total r world))
        (= (mpi_plain_discard1 total r world usage) (* usage (spec_before r)))
        (= (+ (mpi_plain_discard1 total r world usage) (* usage (mpi_plain_sub_calls total r world)) (mpi_plain_discard2 total r world usage (mpi_plain_sub_calls total r world))) (* usage total))))))
; @obligation C16.callsite_vegas mpi_vegas positions the generator with usage*before(rank) and usage*after(rank) and ends at usage*total
(assert (not (=> (and H (U64 usage) (U64 (* usage total)))
   (and (mpi_vegas_discard1__ok total r world usage)
        (mpi_vegas_discard2__ok total r world usage (mpi_vegas_sub_calls total r world))
        (= (mpi_vegas_discard1 total r world usage) (* usage (spec_before r)))
        (= (+ (mpi_vegas_discard1 total r world usage) (* usage (mpi_vegas_sub_calls total r world)) (mpi_vegas_discard2 total r world usage (mpi_vegas_sub_calls total r world))) (* usage total))))))
; @obligation C16.callsite_multi_channel mpi_multi_channel positions the generator with usage*before(rank) and usage*after(rank) and ends at usage*total
(assert (not (=> (and H (U64 usage) (U64 (* usage total)))
   (and (mpi_multi_channel_discard1__ok total r world usage)
        (mpi_multi_channel_discard2__ok total r world usage (mpi_multi_channel_sub_calls total r world))
        (= (mpi_multi_channel_discard1 total r world usage) (* usage (spec_before r)))
        (= (+ (mpi_multi_channel_discard1 total r world usage) (* usage (mpi_multi_channel_sub_calls total r world)) (mpi_multi_channel_discard2 total r world usage (mpi_multi_channel_sub_calls total r world))) (* usage total))))))
; @obligation C16.sanity_sat_expected hypotheses are satisfiable (vacuity guard: this one must be SAT, it is inverted by the runner)
(assert H)
